// Package c16 decides property C16: the module cache never serves a partial
// download, whatever crashes or races.
//
// Real code: mod/modcache, mod/modzip (Unzip, CheckZip), mod/modregistry.Client,
// internal/par.ErrCache, internal/robustio, lockedfile (real flock), ociclient
// (incl. its size/digest verifying blob reader), ociserver, ocimem, net/http
// client, a real directory tree on tmpfs. Stub: the wire — an
// http.RoundTripper that calls the ociserver handler in-process and hands the
// body back through a fault-injecting, parking reader.
package c16

import (
	"bytes"
	"context"
	"crypto/sha256"
	"encoding/hex"
	"errors"
	"fmt"
	"io"
	"io/fs"
	"net/http"
	"net/http/httptest"
	"os"
	"path/filepath"
	"sort"
	"strings"
	"testing"
	"testing/fstest"

	"cuelabs.dev/go/oci/ociregistry/ociclient"
	"cuelabs.dev/go/oci/ociregistry/ocimem"
	"cuelabs.dev/go/oci/ociregistry/ociserver"

	"cuelang.org/go/mod/modcache"
	"cuelang.org/go/mod/modregistry"
	"cuelang.org/go/mod/modregistrytest"
	"cuelang.org/go/mod/module"
	"cuelang.org/go/verifsim/sim"
)

// ---------- case ----------

type File struct {
	Name string `json:"name"`
	Size int    `json:"size"`
	Salt int    `json:"salt"`
}

type Mod struct {
	Path    string `json:"path"` // ex.com/a@v0
	Version string `json:"version"`
	Files   []File `json:"files"` // besides cue.mod/module.cue
}

type Op struct {
	Kind string `json:"kind"` // fetch | modfile | fromcache
	Mod  int    `json:"mod"`
}

type Proc struct {
	Clients [][]Op `json:"clients"`
}

type Kill struct {
	Proc int `json:"proc"` // process id: 1..len(Procs) initial, then restarts in order of creation
	At   int `json:"at"`   // kill it at its At-th crash point (1-based)
	// FSOnly: count only the crash points between file-system effects (not the chunk boundaries of response bodies)
	FSOnly bool `json:"fs_only,omitempty"`
}

type NetFault struct {
	Proc int    `json:"proc"`
	Req  int    `json:"req"`  // the Req-th request of that process (1-based)
	Kind string `json:"kind"` // conn-error | http-500 | cut-unexpected-eof | cut-eof | flip | stall
	Arg  int    `json:"arg"`  // byte offset for cut/flip (taken modulo the body length)
}

type Case struct {
	Sched      sim.SchedConfig `json:"sched"`
	Population string          `json:"population"` // clean | crash | net | mixed
	Mods       []Mod           `json:"mods"`
	Procs      []Proc          `json:"procs"`
	Kills      []Kill          `json:"kills,omitempty"`
	Net        []NetFault      `json:"net,omitempty"`
	Chunk      int             `json:"chunk"`
	Observe    int             `json:"observe"` // the lock-free observer runs at every Observe-th step (1 = every step)
}

func (c *Case) SchedCfg() *sim.SchedConfig { return &c.Sched }

func (c *Case) Summary() any {
	return map[string]any{"policy": c.Sched.Policy, "population": c.Population, "mods": c.Mods, "procs": c.Procs, "kills": c.Kills, "net": c.Net,
		"chunk": c.Chunk, "at_park": c.Sched.AtPark}
}

func (c *Case) clone() *Case {
	d := *c
	d.Mods = make([]Mod, len(c.Mods))
	for i, m := range c.Mods {
		m.Files = append([]File{}, m.Files...)
		d.Mods[i] = m
	}
	d.Procs = make([]Proc, len(c.Procs))
	for i, p := range c.Procs {
		q := Proc{}
		for _, cl := range p.Clients {
			q.Clients = append(q.Clients, append([]Op{}, cl...))
		}
		d.Procs[i] = q
	}
	d.Kills = append([]Kill{}, c.Kills...)
	d.Net = append([]NetFault{}, c.Net...)
	return &d
}

func (c *Case) Shrinks() []sim.CaseI {
	var out []sim.CaseI
	for i := range c.Kills {
		d := c.clone()
		d.Kills = append(d.Kills[:i], d.Kills[i+1:]...)
		out = append(out, d)
	}
	for i := range c.Net {
		d := c.clone()
		d.Net = append(d.Net[:i], d.Net[i+1:]...)
		out = append(out, d)
	}
	// drop a process (only the last, so that process ids in the fault plan stay valid)
	if n := len(c.Procs); n > 1 {
		d := c.clone()
		d.Procs = d.Procs[:n-1]
		out = append(out, d)
	}
	for i, p := range c.Procs {
		if n := len(p.Clients); n > 1 {
			d := c.clone()
			d.Procs[i].Clients = d.Procs[i].Clients[:n-1]
			out = append(out, d)
		}
		for j, cl := range p.Clients {
			for k := range cl {
				if len(cl) > 1 {
					d := c.clone()
					d.Procs[i].Clients[j] = append(d.Procs[i].Clients[j][:k], d.Procs[i].Clients[j][k+1:]...)
					out = append(out, d)
				}
			}
		}
	}
	// fewer / smaller files
	for i, m := range c.Mods {
		for j, f := range m.Files {
			d := c.clone()
			d.Mods[i].Files = append(d.Mods[i].Files[:j], d.Mods[i].Files[j+1:]...)
			out = append(out, d)
			if f.Size > 16 {
				d := c.clone()
				d.Mods[i].Files[j].Size = f.Size / 4
				out = append(out, d)
			}
		}
	}
	if c.Sched.AtPark > 0 {
		d := c.clone()
		d.Sched.AtPark = 0
		out = append(out, d)
	}
	// kill earlier
	for i, k := range c.Kills {
		if k.At > 1 {
			d := c.clone()
			d.Kills[i].At = k.At / 2
			out = append(out, d)
			d = c.clone()
			d.Kills[i].At = k.At - 1
			out = append(out, d)
		}
	}
	return out
}

// ---------- generator ----------

var fileNames = []string{"x.cue", "y.cue", "sub/z.cue", "sub/deep/w.cue", "data/blob.txt", "README.md", "a/b/c/d.cue", "zz.cue"}

func gen(seed uint64, tier string, idx int) sim.CaseI {
	wr := sim.NewRand(sim.Mix(seed, 1))
	kr := sim.NewRand(sim.Mix(seed, 2))
	c := &Case{}
	nm := wr.Range(1, 3)
	// versions of one module share a download directory: include versions that
	// are string prefixes of one another (v0.1.1 / v0.1.10, v0.2.0 / v0.2.0-rc.1)
	pool := []string{"v0.1.0", "v0.1.1", "v0.1.10", "v0.2.0", "v0.2.0-rc.1", "v0.2.1-pre"}
	var vers []string
	if wr.Bool(0.5) {
		k := []int{1, 3}[wr.Intn(2)] // a prefix pair first
		vers = []string{pool[k], pool[k+1], pool[wr.Intn(len(pool))]}
		if vers[2] == vers[0] || vers[2] == vers[1] {
			vers[2] = "v0.3.0"
		}
	} else {
		for _, k := range wr.Perm(len(pool))[:3] {
			vers = append(vers, pool[k])
		}
	}
	for i := 0; i < nm; i++ {
		m := Mod{Path: "ex.com/a@v0", Version: vers[i]}
		if wr.Bool(0.3) {
			m.Path = fmt.Sprintf("ex.com/m%d@v0", i)
			m.Version = "v0.1.0"
		}
		for _, k := range wr.Perm(len(fileNames))[:wr.Intn(5)] {
			size := wr.Intn(200)
			switch wr.Intn(6) {
			case 0:
				size = 0
			case 1:
				size = 2000 + wr.Intn(30000)
			}
			m.Files = append(m.Files, File{Name: fileNames[k], Size: size, Salt: wr.Intn(1000)})
		}
		c.Mods = append(c.Mods, m)
	}
	np := wr.Range(1, 3)
	hot := wr.Intn(nm) // skew towards the same version
	for p := 0; p < np; p++ {
		var pr Proc
		for g := wr.Range(1, 3); g > 0; g-- {
			var ops []Op
			for o := wr.Range(1, 3); o > 0; o-- {
				op := Op{Kind: "fetch", Mod: hot}
				if wr.Bool(0.35) {
					op.Mod = wr.Intn(nm)
				}
				switch wr.Intn(10) {
				case 0, 1:
					op.Kind = "modfile"
				case 2:
					op.Kind = "fromcache"
				}
				ops = append(ops, op)
			}
			pr.Clients = append(pr.Clients, ops)
		}
		c.Procs = append(c.Procs, pr)
	}
	c.Chunk = []int{7, 64, 512, 4096, 1 << 20}[kr.Intn(5)]
	c.Observe = 1
	if tier == "quick" {
		c.Observe = kr.Range(1, 3)
	}
	c.Sched = sim.SchedConfig{Seed: sim.Mix(seed, 3), AtPark: []float64{0, 0.1, 0.3, 1}[kr.Intn(4)]}
	switch kr.Intn(8) {
	case 0:
		c.Sched.Policy = "sequential"
	case 1, 2:
		c.Sched.Policy = "latency"
		c.Sched.LatencyMs = map[sim.Kind][2]int{sim.KCall: {1, 1 + kr.Intn(300)}, sim.KIO: {0, kr.Intn(20)}, sim.KAt: {0, kr.Intn(5)}, sim.KClient: {0, kr.Intn(100)}, sim.KLock: {0, 1}}
	case 3, 4:
		c.Sched.Policy = "pct"
		c.Sched.PCTDepth = kr.Range(1, 3)
		c.Sched.PCTSpan = 150
	default:
		c.Sched.Policy = "uniform"
		if kr.Bool(0.4) {
			c.Sched.Sticky = 0.7
		}
	}
	c.Population = []string{"clean", "crash", "crash", "net", "mixed", "mixed"}[kr.Intn(6)]
	if c.Population == "crash" || c.Population == "mixed" {
		nk := kr.Range(1, 2)
		next := np + 1
		for k := 0; k < nk; k++ {
			kill := Kill{Proc: kr.Range(1, np), At: kr.Range(1, 60), FSOnly: kr.Bool(0.6)}
			if k == 1 && kr.Bool(0.6) {
				kill.Proc = next - 1 // the process recovering from the first kill
				if kill.Proc <= np {
					kill.Proc = kr.Range(1, np)
				}
			}
			if kr.Bool(0.2) {
				kill.At = kr.Range(1, 300)
			}
			c.Kills = append(c.Kills, kill)
			next++
		}
	}
	if c.Population == "net" || c.Population == "mixed" {
		kinds := []string{"conn-error", "http-500", "cut-unexpected-eof", "cut-eof", "flip", "stall"}
		for k := kr.Range(1, 3); k > 0; k-- {
			c.Net = append(c.Net, NetFault{Proc: kr.Range(1, np), Req: kr.Range(1, 6), Kind: kinds[kr.Intn(len(kinds))], Arg: kr.Intn(40000)})
		}
	}
	return c
}

// ---------- ground truth ----------

func content(f File) []byte {
	b := make([]byte, f.Size)
	r := sim.NewRand(uint64(f.Salt)*7919 + uint64(f.Size))
	for i := range b {
		b[i] = "abcdefghijklmnopqrstuvwxyz \n"[r.Intn(28)]
	}
	return b
}

type truth struct {
	mv      module.Version
	files   map[string][]byte // everything the extracted directory must contain
	zip     []byte
	modfile []byte
	zipSum  string
	base    string // repository name
}

type universe struct {
	mods    []*truth
	handler http.Handler
}

func buildUniverse(c *Case) (*universe, error) {
	fsys := fstest.MapFS{}
	u := &universe{}
	for _, m := range c.Mods {
		mv, err := module.NewVersion(m.Path, m.Version)
		if err != nil {
			return nil, err
		}
		tr := &truth{mv: mv, files: map[string][]byte{}, base: mv.BasePath()}
		dir := strings.ReplaceAll(mv.BasePath(), "/", "_") + "_" + m.Version
		// the version in a comment makes every version's zip (and its digest) unique
		mf := []byte(fmt.Sprintf("// %s\nmodule: %q\nlanguage: version: \"v0.9.0\"\n", m.Version, m.Path))
		tr.files["cue.mod/module.cue"] = mf
		for _, f := range m.Files {
			tr.files[f.Name] = content(f)
		}
		for name, data := range tr.files {
			fsys[dir+"/"+name] = &fstest.MapFile{Data: data, Mode: 0o644}
		}
		u.mods = append(u.mods, tr)
	}
	mem := ocimem.New()
	ctx := context.Background()
	if err := modregistrytest.Upload(ctx, mem, fsys); err != nil {
		return nil, fmt.Errorf("upload: %v", err)
	}
	direct := modregistry.NewClient(mem)
	for _, tr := range u.mods {
		m, err := direct.GetModule(ctx, tr.mv)
		if err != nil {
			return nil, err
		}
		r, err := m.GetZip(ctx)
		if err != nil {
			return nil, err
		}
		tr.zip, err = io.ReadAll(r)
		r.Close()
		if err != nil {
			return nil, err
		}
		tr.modfile, err = m.ModuleFile(ctx)
		if err != nil {
			return nil, err
		}
		sum := sha256.Sum256(tr.zip)
		tr.zipSum = hex.EncodeToString(sum[:])
	}
	u.handler = ociserver.New(mem, nil)
	return u, nil
}

// ---------- the wire ----------

type procState struct {
	id       int
	cache    *modcache.Cache
	reqs     int
	ats      int
	fsAts    int
	zipGets  map[string]int  // zip digest → GETs
	faulted  map[string]bool // repository → a transport fault was injected into a request for it
	dead     bool
	restart  bool // a restarted process (its ops are the interrupted process' ops)
	clients  [][]Op
	finished int
}

type simRT struct {
	h *harness
	p *procState
}

func (rt *simRT) RoundTrip(req *http.Request) (*http.Response, error) {
	h, p := rt.h, rt.p
	p.reqs++
	n := p.reqs
	var fault *NetFault
	for i := range h.c.Net {
		if f := &h.c.Net[i]; f.Proc == p.id && f.Req == n {
			fault = f
		}
	}
	path := req.URL.Path
	repo := ""
	if rest, ok := strings.CutPrefix(path, "/v2/"); ok {
		if i := strings.Index(rest, "/manifests/"); i >= 0 {
			repo = rest[:i]
		} else if i := strings.Index(rest, "/blobs/"); i >= 0 {
			repo = rest[:i]
		}
	}
	mark := func(kind string) {
		h.faults["net:"+kind]++
		p.faulted[repo] = true
	}
	h.s.Park(sim.KCall, "http", req.Method+" "+path)
	if fault != nil && fault.Kind == "stall" {
		mark("stall")
		h.s.Park(sim.KStalled, "http-stalled", req.Method+" "+path)
	}
	if fault != nil && fault.Kind == "conn-error" {
		mark("conn-error")
		return nil, errors.New("injected: connection refused")
	}
	if req.Method == "GET" {
		for _, tr := range h.u.mods {
			if strings.HasSuffix(path, "/blobs/sha256:"+tr.zipSum) {
				p.zipGets[tr.zipSum]++
			}
		}
	}
	rec := httptest.NewRecorder()
	h.u.handler.ServeHTTP(rec, req)
	resp := rec.Result()
	resp.Request = req
	body := rec.Body.Bytes()
	if fault != nil && fault.Kind == "http-500" {
		mark("http-500")
		resp = &http.Response{StatusCode: 500, Status: "500 Internal Server Error", Proto: "HTTP/1.1", ProtoMajor: 1, ProtoMinor: 1,
			Header: http.Header{"Content-Type": {"text/plain"}}, Request: req}
		body = []byte("injected failure")
		resp.ContentLength = int64(len(body))
	}
	fr := &faultReader{h: h, p: p, data: body, chunk: h.c.Chunk, what: req.Method + " " + path}
	if fault != nil && len(body) > 0 {
		switch fault.Kind {
		case "cut-unexpected-eof":
			fr.cut, fr.cutErr = fault.Arg%len(body), io.ErrUnexpectedEOF
			fr.mark = func() { mark("cut-unexpected-eof") }
		case "cut-eof":
			fr.cut, fr.cutErr = fault.Arg%len(body), io.EOF
			fr.mark = func() { mark("cut-eof") }
		case "flip":
			d := append([]byte{}, body...)
			d[fault.Arg%len(d)] ^= 0x20
			fr.data = d
			mark("flip")
		}
	}
	resp.Body = fr
	return resp, nil
}

type faultReader struct {
	h      *harness
	p      *procState
	data   []byte
	off    int
	chunk  int
	cut    int
	cutErr error
	mark   func()
	what   string
	closed bool
}

func (r *faultReader) Read(b []byte) (int, error) {
	if r.off > 0 || len(r.data) > r.chunk {
		// between two chunks of a body: a crash point and a possible scheduling point
		r.h.s.At("net.body", r.what)
	}
	limit := len(r.data)
	if r.cutErr != nil {
		limit = r.cut
	}
	if r.off >= limit {
		if r.cutErr != nil {
			if r.mark != nil {
				r.mark()
				r.mark = nil
			}
			return 0, r.cutErr
		}
		return 0, io.EOF
	}
	n := min(len(b), r.chunk, limit-r.off)
	copy(b, r.data[r.off:r.off+n])
	r.off += n
	return n, nil
}

func (r *faultReader) Close() error { r.closed = true; return nil }

// ---------- harness ----------

type opResult struct {
	proc int
	op   Op
	err  error
}

type harness struct {
	c      *Case
	s      *sim.Sched
	u      *universe
	dir    string
	procs  map[int]*procState
	nextID int
	faults map[string]int
	cnt    map[string]int
	avail  map[int]bool // module index → some call has reported it available
	res    []opResult
	viol   *sim.Violation
	toRestart []*procState
	killsDone int
	overlap   bool
}

func (h *harness) fail(class, format string, args ...any) {
	if h.viol == nil {
		h.viol = &sim.Violation{Class: class, Msg: fmt.Sprintf(format, args...)}
		h.s.Fail(class, format, args...)
	}
}

func (h *harness) newProc(clients [][]Op, restart bool) *procState {
	h.nextID++
	p := &procState{id: h.nextID, zipGets: map[string]int{}, faulted: map[string]bool{}, clients: clients, restart: restart}
	reg, err := ociclient.New("registry.test", &ociclient.Options{Transport: &simRT{h, p}, Insecure: true})
	if err != nil {
		panic(err)
	}
	p.cache, err = modcache.New(modregistry.NewClient(reg), h.dir)
	if err != nil {
		panic(err)
	}
	h.procs[p.id] = p
	return p
}

func (h *harness) start(p *procState) {
	for ci, ops := range p.clients {
		h.s.Go(fmt.Sprintf("p%d/c%d", p.id, ci), p.id, func() {
			for _, op := range ops {
				h.s.Park(sim.KClient, "client", fmt.Sprintf("%s %s", op.Kind, h.u.mods[op.Mod].mv))
				h.doOp(p, op)
			}
			p.finished++
		})
	}
}

// checkDir compares an extracted directory with the ground truth.
func checkDir(root string, tr *truth) error {
	got := map[string]bool{}
	err := filepath.WalkDir(root, func(path string, d fs.DirEntry, err error) error {
		if err != nil {
			return err
		}
		if d.IsDir() {
			return nil
		}
		rel, _ := filepath.Rel(root, path)
		rel = filepath.ToSlash(rel)
		want, ok := tr.files[rel]
		if !ok {
			return fmt.Errorf("unexpected file %s", rel)
		}
		data, err := os.ReadFile(path)
		if err != nil {
			return err
		}
		if !bytes.Equal(data, want) {
			return fmt.Errorf("file %s has %d bytes, content differs from the registry's (%d bytes)", rel, len(data), len(want))
		}
		got[rel] = true
		return nil
	})
	if err != nil {
		return err
	}
	var missing []string
	for name := range tr.files {
		if !got[name] {
			missing = append(missing, name)
		}
	}
	if len(missing) > 0 {
		sort.Strings(missing)
		return fmt.Errorf("missing files %v", missing)
	}
	return nil
}

func locRoot(loc module.SourceLoc) (string, error) {
	osr, ok := loc.FS.(module.OSRootFS)
	if !ok {
		return "", fmt.Errorf("location has no OS root")
	}
	return filepath.Join(osr.OSRoot(), loc.Dir), nil
}

func (h *harness) doOp(p *procState, op Op) {
	tr := h.u.mods[op.Mod]
	ctx := context.Background()
	var err error
	// history oracle (write-once set): once any completed call or the observer has seen the
	// version available, every later Fetch and FetchFromCache must find it, whatever faults follow
	wasAvail := h.avail[op.Mod]
	defer func() {
		if wasAvail && err != nil {
			h.fail("available-version-not-served", "process %d: %s(%v) failed although the version had already been reported available: %v", p.id, op.Kind, tr.mv, err)
		}
	}()
	switch op.Kind {
	case "fetch":
		var loc module.SourceLoc
		loc, err = p.cache.Fetch(ctx, tr.mv)
		if err == nil {
			root, e := locRoot(loc)
			if e == nil {
				e = checkDir(root, tr)
			}
			if e != nil {
				h.fail("fetch-wrong-content", "process %d: Fetch(%v) returned a directory that is not the module: %v", p.id, tr.mv, e)
			}
			h.avail[op.Mod] = true
		}
	case "fromcache":
		var loc module.SourceLoc
		loc, err = p.cache.FetchFromCache(tr.mv)
		if err == nil {
			root, e := locRoot(loc)
			if e == nil {
				e = checkDir(root, tr)
			}
			if e != nil {
				h.fail("fromcache-wrong-content", "process %d: FetchFromCache(%v) reported a directory that is not the module: %v", p.id, tr.mv, e)
			}
			h.avail[op.Mod] = true
		} else if errors.Is(err, modregistry.ErrNotFound) && !wasAvail {
			err = nil
		}
	case "modfile":
		wasAvail = false // the module file is a separate artefact
		mf, e := p.cache.ModFile(ctx, tr.mv)
		err = e
		if e == nil && mf.QualifiedModule() != tr.mv.Path() {
			h.fail("modfile-wrong-content", "process %d: ModFile(%v) names module %q", p.id, tr.mv, mf.QualifiedModule())
		}
	}
	h.s.Logf("p%d %s %v -> %v", p.id, op.Kind, tr.mv, errClass(err))
	h.res = append(h.res, opResult{p.id, op, err})
}

func errClass(err error) string {
	if err == nil {
		return "ok"
	}
	return "error"
}

// observe is the lock-free reader the .partial marker exists for, plus the
// artefact checks; it runs on the controller goroutine at quiescent points.
func (h *harness) observe() *sim.Violation {
	obs, err := modcache.New(nil, h.dir)
	if err != nil {
		return &sim.Violation{Class: "harness", Msg: err.Error()}
	}
	for i, tr := range h.u.mods {
		loc, err := obs.FetchFromCache(tr.mv)
		if err == nil {
			root, e := locRoot(loc)
			if e == nil {
				e = checkDir(root, tr)
			}
			if e != nil {
				cls := "observer-saw-incomplete-directory"
				if h.avail[i] {
					cls = "available-directory-changed"
				}
				return &sim.Violation{Class: cls, Msg: fmt.Sprintf("a fresh lock-free FetchFromCache(%v) reports the module available, but its directory is not the module: %v", tr.mv, e)}
			}
			if !h.avail[i] {
				h.cnt["observer-first-to-see-available"]++
			}
			h.avail[i] = true
		} else if h.avail[i] {
			return &sim.Violation{Class: "availability-lost", Msg: fmt.Sprintf("%v had been reported available, now FetchFromCache says: %v", tr.mv, err)}
		}
		// download artefacts: absent or complete
		encPath, _ := module.EscapePath(tr.mv.BasePath())
		encVer, _ := module.EscapeVersion(tr.mv.Version())
		base := filepath.Join(h.dir, "mod", "download", encPath, "@v", encVer)
		if data, err := os.ReadFile(base + ".zip"); err == nil && !bytes.Equal(data, tr.zip) {
			return &sim.Violation{Class: "cached-zip-incomplete", Msg: fmt.Sprintf("%s.zip exists with %d bytes and differs from the registry's zip (%d bytes)", base, len(data), len(tr.zip))}
		}
		if data, err := os.ReadFile(base + ".mod"); err == nil && !bytes.Equal(data, tr.modfile) {
			return &sim.Violation{Class: "cached-modfile-incomplete", Msg: fmt.Sprintf("%s.mod exists with %d bytes and differs from the registry's module file (%d bytes)", base, len(data), len(tr.modfile))}
		}
	}
	return nil
}

func diskState(dir string, tr *truth) string {
	encPath, _ := module.EscapePath(tr.mv.BasePath())
	encVer, _ := module.EscapeVersion(tr.mv.Version())
	base := filepath.Join(dir, "mod", "download", encPath, "@v", encVer)
	var st []string
	for _, suf := range []string{"lock", "zip", "mod", "partial"} {
		if _, err := os.Stat(base + "." + suf); err == nil {
			st = append(st, suf)
		}
	}
	if m, _ := filepath.Glob(base + ".zip*.tmp"); len(m) > 0 {
		st = append(st, "tmp-zip")
	}
	if m, _ := filepath.Glob(base + ".mod*.tmp"); len(m) > 0 {
		st = append(st, "tmp-mod")
	}
	if fi, err := os.Stat(filepath.Join(dir, "mod", "extract", encPath+"@"+encVer)); err == nil && fi.IsDir() {
		st = append(st, "dir")
	}
	return strings.Join(st, "+")
}

var scratchRoot = func() string {
	for _, d := range []string{"/dev/shm", os.TempDir()} {
		if fi, err := os.Stat(d); err == nil && fi.IsDir() {
			p, err := os.MkdirTemp(d, "cuesim-c16-")
			if err == nil {
				return p
			}
		}
	}
	panic("no scratch directory")
}()

var runCounter int

func exec(t *testing.T, ci sim.CaseI, choices []uint32, keepLog bool) *sim.Outcome {
	c := ci.(*Case)
	u, err := buildUniverse(c)
	if err != nil {
		sim.Trouble("cannot build universe: %v", err)
	}
	runCounter++
	dir := filepath.Join(scratchRoot, fmt.Sprintf("run%d", runCounter))
	os.MkdirAll(dir, 0o777)
	defer modcache.RemoveAll(dir)
	cfg := c.Sched
	cfg.Choices = choices
	if cfg.MaxSteps == 0 {
		cfg.MaxSteps = 30000
	}
	s := sim.NewSched(cfg, keepLog)
	h := &harness{c: c, s: s, u: u, dir: dir, procs: map[int]*procState{}, faults: map[string]int{}, cnt: map[string]int{}, avail: map[int]bool{}}
	s.Normalize = func(d string) string { return strings.ReplaceAll(d, dir, "$CACHE") }
	s.OnAt = func(t *sim.Task, site string, detail []string) bool {
		p := h.procs[t.Proc]
		if p == nil || p.dead {
			return false
		}
		p.ats++
		if site != "net.body" {
			p.fsAts++
		}
		h.cnt["at:"+site]++
		for _, k := range c.Kills {
			if k.Proc == p.id && ((!k.FSOnly && k.At == p.ats) || (k.FSOnly && site != "net.body" && k.At == p.fsAts)) {
				p.dead = true
				h.killsDone++
				h.faults["kill"]++
				h.cnt["kill@"+site]++
				for _, tr := range h.u.mods {
					h.cnt["disk-at-kill:"+diskState(h.dir, tr)]++
				}
				s.Logf("KILL p%d at crash point %d (%s)", p.id, p.ats, site)
				h.toRestart = append(h.toRestart, p)
				return true
			}
		}
		return false
	}
	s.OnStep = func(s *sim.Sched) *sim.Violation {
		if h.viol != nil {
			return h.viol
		}
		// start a fresh process for every killed one: the interrupted work first
		for _, dead := range h.toRestart {
			np := h.newProc(dead.clients, true)
			h.start(np)
			h.cnt["process-restarts"]++
		}
		h.toRestart = nil
		live := 0
		for _, p := range h.procs {
			if !p.dead && p.finished < len(p.clients) {
				live++
			}
		}
		if live >= 2 {
			h.overlap = true
		}
		if c.Observe <= 1 || s.Steps()%c.Observe == 0 {
			if v := h.observe(); v != nil {
				return v
			}
		}
		return nil
	}
	res := sim.RunBubble(t, s, func() {
		for _, pr := range c.Procs {
			h.start(h.newProc(pr.Clients, false))
		}
	}, func() {
		// final state, then recovery: a clean process fetches every version
		if v := h.observe(); v != nil {
			s.Fail(v.Class, "%s", v.Msg)
			return
		}
		clean := h.newProc(nil, false)
		for i, tr := range u.mods {
			loc, err := clean.cache.Fetch(context.Background(), tr.mv)
			if err != nil {
				s.Fail("recovery-failed", "after the fault history a clean process cannot fetch %v: %v (disk: %s)", tr.mv, err, diskState(h.dir, tr))
				return
			}
			root, e := locRoot(loc)
			if e == nil {
				e = checkDir(root, tr)
			}
			if e != nil {
				s.Fail("recovery-wrong-content", "after the fault history a clean Fetch(%v) returns a directory that is not the module: %v", tr.mv, e)
				return
			}
			h.avail[i] = true
			if _, err := clean.cache.ModFile(context.Background(), tr.mv); err != nil {
				s.Fail("recovery-failed", "after the fault history a clean process cannot read the module file of %v: %v", tr.mv, err)
				return
			}
		}
		if v := h.observe(); v != nil {
			s.Fail(v.Class, "%s", v.Msg)
		}
		h.cnt["recoveries-checked"]++
	})
	out := &sim.Outcome{Res: res, Faults: h.faults, Counters: h.cnt}
	// crash points reached per initial process (for the single-kill enumeration)
	var ats []string
	for id := 1; id <= len(c.Procs); id++ {
		if p := h.procs[id]; p != nil {
			ats = append(ats, fmt.Sprint(p.ats))
		}
	}
	out.Final = strings.Join(ats, ",")
	nf := 0
	for _, n := range h.faults {
		nf += n
	}
	out.NonTrivial = nf > 0 || h.overlap
	if h.overlap {
		h.cnt["runs-with-overlapping-processes"]++
	}
	if out.Res.Violation == nil {
		if v := h.judge(); v != nil {
			v.Step = res.Steps
			out.Res.Violation = v
		}
	}
	if out.Res.Violation != nil {
		out.Key = out.Res.Violation.Class
	}
	return out
}

func (h *harness) judge() *sim.Violation {
	// one download per version per process
	for _, p := range h.procs {
		for sum, n := range p.zipGets {
			if n > 1 {
				return &sim.Violation{Class: "zip-downloaded-twice", Msg: fmt.Sprintf("process %d downloaded the zip sha256:%s %d times", p.id, sum[:12], n)}
			}
		}
	}
	// failures are only what faults explain
	for _, r := range h.res {
		if r.err == nil {
			continue
		}
		p := h.procs[r.proc]
		if p.dead {
			continue
		}
		tr := h.u.mods[r.op.Mod]
		if !p.faulted[tr.base] {
			return &sim.Violation{Class: "unexplained-failure", Msg: fmt.Sprintf("process %d (alive, no transport fault injected for %s): %s %v failed: %v", p.id, tr.base, r.op.Kind, tr.mv, r.err)}
		}
	}
	// every live process finished its work (bounded liveness is the scheduler's step budget)
	for _, p := range h.procs {
		if !p.dead && p.finished < len(p.clients) {
			return &sim.Violation{Class: "deadlock", Msg: fmt.Sprintf("process %d never finished", p.id)}
		}
	}
	return nil
}

// expand enumerates the single-kill space of a fault-free run: one derived
// run per (initial process, k-th crash point), replaying the decisions of the
// base run, so that every derived run is identical to it up to the kill.
func expand(ci sim.CaseI, out *sim.Outcome, tier string) []sim.Derived {
	c := ci.(*Case)
	if tier != "thorough" || len(c.Kills) > 0 || len(c.Net) > 0 || out.Final == "" {
		return nil
	}
	// bound the work per base run: at most 250 kill points per process
	var ds []sim.Derived
	for pi, f := range strings.Split(out.Final, ",") {
		n := 0
		fmt.Sscan(f, &n)
		step := 1
		if n > 250 {
			step = n/250 + 1
		}
		for k := 1; k <= n; k += step {
			d := c.clone()
			d.Population = "crash"
			d.Kills = []Kill{{Proc: pi + 1, At: k}}
			ds = append(ds, sim.Derived{Case: d, Choices: append([]uint32{}, out.Res.Choices...)})
		}
	}
	return ds
}

var Prop = &sim.Prop{
	ID:     "C16",
	Expand: expand,
	New:  func() sim.CaseI { return &Case{} },
	Gen:  gen,
	Exec: exec,
	Rule: "case = universe of 1-3 module versions with 0-4 files each (0 B to 32 KB, nested directories) x 1-3 simulated processes x 1-3 goroutines each x 1-3 operations (Fetch / ModFile / FetchFromCache, skewed to one version) x scheduler policy and knobs (body chunk size, probability that a crash point is also a scheduling point) x fault plan (population clean / crash-only / transport-only / mixed: up to 2 process kills at the n-th crash point, the second possibly in the recovering process; per-request transport faults), all from the run seed; non-trivial = at least one fault fired or two live processes overlapped; distinct = distinct hash of the full event log",
	Real: []string{"mod/modcache", "mod/modzip (Unzip, CheckZip)", "mod/modregistry.Client", "internal/par.ErrCache", "internal/robustio", "lockedfile (real flock)", "ociclient (digest-verifying blob reader)", "ociserver", "ocimem", "net/http client", "a real directory tree on tmpfs"},
	Stubs: []string{"the wire: an http.RoundTripper that calls the ociserver handler in-process and returns the body through a fault-injecting reader that parks between chunks"},
}

func TestWorker(t *testing.T) { sim.WorkerMain(t, Prop) }

func TestMain(m *testing.M) {
	code := m.Run()
	os.RemoveAll(scratchRoot)
	os.Exit(code)
}
