// Package c19 decides property C19: concurrent use of shared cue.Values gives
// the answers of sequential use, leaves the values unchanged, and is free of
// data races.
//
// Real code: everything under the cue API that the operations reach. Stub:
// nothing; the "nodes" are caller goroutines, serialised by the spin
// back-end at the yield points of internal/simhook, with a hand-off that
// creates no happens-before edge, under the race detector.
package c19

import (
	"bytes"
	"encoding/json"
	"fmt"
	"os"
	"regexp"
	"runtime"
	"sort"
	"strings"
	"sync"
	"testing"

	"cuelang.org/go/cue"
	"cuelang.org/go/cue/ast"
	cuebuild "cuelang.org/go/cue/build"
	"cuelang.org/go/cue/cuecontext"
	"cuelang.org/go/cue/errors"
	"cuelang.org/go/cue/format"
	"cuelang.org/go/cue/parser"
	"cuelang.org/go/encoding/yaml"
	"cuelang.org/go/verifsim/sim"
)

// ---------- case ----------

type Op struct {
	Kind string `json:"kind"`
	Val  int    `json:"val"`            // which shared value
	Path string `json:"path,omitempty"` // a path inside it
	Arg  int    `json:"arg,omitempty"`
}

type Worker struct {
	Own bool `json:"own,omitempty"` // uses a context of its own (values of different contexts do not interfere)
	Ops []Op `json:"ops"`
}

type Case struct {
	Spin     sim.SpinConfig  `json:"spin"`
	Dummy    sim.SchedConfig `json:"-"`
	Suffix   string          `json:"suffix"`   // fresh label names per run
	Snippets []int           `json:"snippets"` // which program fragments
	Workers  []Worker        `json:"workers"`
}

func (c *Case) SchedCfg() *sim.SchedConfig {
	c.Dummy.Policy = c.Spin.Policy
	return &c.Dummy
}

func (c *Case) Summary() any {
	return map[string]any{"policy": c.Spin.Policy, "switch_p": c.Spin.SwitchP, "pct_depth": c.Spin.PCTDepth, "program": program(c), "workers": c.Workers}
}

func (c *Case) clone() *Case {
	var d Case
	data, _ := json.Marshal(c)
	json.Unmarshal(data, &d)
	return &d
}

func (c *Case) Shrinks() []sim.CaseI {
	var out []sim.CaseI
	for i := len(c.Workers) - 1; i >= 0; i-- {
		if len(c.Workers) > 2 {
			d := c.clone()
			d.Workers = append(d.Workers[:i], d.Workers[i+1:]...)
			out = append(out, d)
		}
	}
	for i, w := range c.Workers {
		for j := range w.Ops {
			if len(w.Ops) > 1 {
				d := c.clone()
				d.Workers[i].Ops = append(d.Workers[i].Ops[:j], d.Workers[i].Ops[j+1:]...)
				out = append(out, d)
			}
		}
	}
	for i := range c.Snippets {
		if len(c.Snippets) > 1 {
			d := c.clone()
			d.Snippets = append(d.Snippets[:i], d.Snippets[i+1:]...)
			out = append(out, d)
		}
	}
	return out
}

// ---------- programs ----------

// Each snippet defines one top-level field f<i>_S (S = per-run suffix), possibly with a definition.
var snippets = []string{
	/*0*/ `#D0_S: {name_S: string, n_S?: int & >=0, tags_S: [...string]}
f0_S: #D0_S & {name_S: "x", tags_S: ["a", "b"]}`,
	/*1*/ `f1_S: {x_S: 1 | *2, y_S: x_S + 1, z_S: [for i in list.Range(0, 3, 1) {v_S: i * y_S}]}`,
	/*2*/ `f2_S: {for k, v in {a_S: 1, b_S: 2, c_S: 3} if k != "b_S" {"\(k)_c": v + 1}}`,
	/*3*/ `f3_S: strings.ToUpper("abc_S") + strings.Repeat("z", 3)`,
	/*4*/ `f4_S: {[=~"^p"]: int, p1_S: 1, p2_S: 2, q_S: "s"}`,
	/*5*/ `f5_S: *{kind_S: "a", va_S: 1} | {kind_S: "b", vb_S: 2}`,
	/*6*/ `f6_S: {let L_S = 5, h_S: L_S * 2, opt_S?: int, g_S: h_S + 1}`,
	/*7*/ `f7_S: {x_S: y_S, y_S: x_S, w_S: x_S & int}`,
	/*8*/ `f8_S: [1, 2, 3, ...int]`,
	/*9*/ `f9_S: {a_S: {b_S: {c_S: {d_S: 1, e_S: d_S + 1}}}, r_S: a_S.b_S.c_S.e_S}`,
	/*10*/ `#D10_S: {kind_S: "k", spec_S: {replicas_S: int | *1, name_S: string}}
f10_S: #D10_S & {spec_S: name_S: "n"}`,
	/*11*/ `f11_S: {s_S: math.Floor(2.5) + math.Pow(2, 3), t_S: len("héllo_S")}`,
	/*12*/ `f12_S: json.Marshal({a_S: 1, b_S: [1, 2]})`,
	/*13*/ `f13_S: {req_S!: string, have_S: 1}`,
	/*14*/ `f14_S: {a_S: >=1 & <=10, b_S: a_S & 5, c_S: number & >2.5}`,
	/*15*/ `f15_S: close({a_S: 1}) & {a_S: 1}`,
	/*16*/ `f16_S: {#Inner_S: {v_S: int}, list_S: [...#Inner_S] & [{v_S: 1}, {v_S: 2}], sum_S: list.Sum([for e in list_S {e.v_S}])}`,
	/*17*/ `f17_S: {a_S: "x" | "y" | *"z", b_S: {if a_S == "z" {c_S: true}}}`,
	/*18*/ `f18_S: {bad_S: 1 & 2, ok_S: 1}`,
	/*19*/ `f19_S: {t_S: struct.MinFields(1) & {a_S: 1}, u_S: list.Sort([3, 1, 2], list.Ascending)}`,
	// disjunctions that unification resolves to one disjunct (tagged unions, narrowed defaults, lists of unions)
	/*20*/ `#U20_S: {k_S: "a", va_S: int} | {k_S: "b", vb_S: string}
f20_S: {u_S: #U20_S & {k_S: "a", va_S: 1}, w_S: #U20_S & {k_S: "b", vb_S: "s"}}`,
	/*21*/ `f21_S: {sw_S: (*"on" | "off") & "off", d_S: *{p_S: 1, q_S: 2} | {p_S: 3}, e_S: d_S & {p_S: 3}}`,
	/*22*/ `#A22_S: {t_S: "a", n_S: int}
#B22_S: {t_S: "b", s_S: string}
f22_S: {l_S: [...(#A22_S | #B22_S)] & [{t_S: "a", n_S: 1}, {t_S: "b", s_S: "x"}]}`,
	/*23*/ `#Base23_S: {id_S: string, labels_S: [string]: string}
f23_S: {#Base23_S, id_S: "i", labels_S: app_S: "x", extra_S: len(labels_S)}`,
	/*24*/ `f24_S: {in_S: {a_S: 1, b_S: 2}, out_S: {for k, v in in_S {let D_S = v * 2, (k): D_S, if v > 1 {"\(k)_big": true}}}}`,
	/*25*/ `f25_S: {port_S: *8080 | int, host_S: *"localhost" | string, addr_S: "\(host_S):\(port_S)", tags_S: [...string] | *["x"]}`,
	/*26*/ `f26_S: {a_S?: int, b_S: *a_S | 7, c_S: {d_S?: {e_S: 1}}, f_S: c_S.d_S.e_S | *0}`,
	/*27*/ `f27_S: {n_S: 3, l_S: [for i in list.Range(0, n_S, 1) {"i\(i)"}], m_S: {for i, v in l_S {(v): i}}, j_S: strings.Join(l_S, ",")}`,
	// evaluations in which tasks block on each other: reference cycles resolved through a concrete value, mutually dependent comprehensions
	/*28*/ `f28_S: {lo_S: hi_S - 100, hi_S: lo_S + 100, hi_S: 200}`,
	/*29*/ `f29_S: {d_S: e_S - 1, e_S: 1 + d_S, e_S: *2 | 0}`,
	/*30*/ `f30_S: {x_S: {if y_S.v_S > 1 {w_S: 1}}, y_S: {v_S: 2, if x_S.w_S != _|_ {u_S: 3}}, z_S: {for k, v in y_S {"\(k)": v}}}`,
	// conjunctions of bounds and validators in unsorted order, erroneous fields next to good ones
	/*31*/ `f31_S: {a_S: <10 & >=0 & int, b_S: !="x" & =~"^a" & string, c_S: <=5 & >2 & !=3, d_S: a_S & c_S,
	e_S: g_S & h_S & int, g_S: !=5, h_S: >1, v_S: strings.MinRunes(1) & =~"^a", w_S: {x_S: y_S & number, y_S: <100}}`,
	/*32*/ `f32_S: {bad_S: 1 & 2, s_S: "x" & int, l_S: [1, 2] & [1, 3], ok_S: bad_S | 7, n_S: {m_S: bad_S},
	o_S: 5 & <3, r_S: "foo" & =~"^b", i_S: len(5)}`,
	// closed structs with pattern constraints: whether a label is allowed is decided by the patterns
	/*33*/ `#C33_S: {[=~"^x"]: int, [=~"^s"]: string, a_S: 1}
f33_S: {v_S: #C33_S & {x1_S: 2, s1_S: "q"}, w_S: close({[=~"^k"]: bool, k1_S: true})}`,
	// attributes: one declaration shared by two fields that each add their own, several declarations of one field, doc comments
	/*34*/ `#D34_S: {
	// a has three attributes
	a_S: int @one(1) @two(2) @three(3)
}
#EX34_S: {a_S: 1 @forx(x)}
#EY34_S: {a_S: 2 @fory(y)}
f34_S: {x_S: #D34_S & #EX34_S, y_S: #D34_S & #EY34_S, z_S: {
	// first
	b_S: 1 @p(1) @q(2) @r(3) @s(4) @t(5)
	// second
	b_S: int @u(6) @p(1)
} @decl(z)}`,
	// let clauses referred to from a nested struct: one whose value is an error, one that computes
	/*35*/ `f35_S: {let Y_S = {c_S: 1 & 2}, a_S: {b_S: Y_S.c_S}}`,
	// wide disjunctions: a tagged union of six structs, an enumeration of six values
	/*36*/ `#U36_S: {kind_S: "a", a_S: int} | {kind_S: "b", b_S: string} | {kind_S: "c", c_S: bool} | {kind_S: "d", d_S: [...int]} | {kind_S: "e", e_S: null} | {kind_S: "f", f_S: float}
f36_S: {svc_S: #U36_S, svc_S: {kind_S: string}, e6_S: 1 | 2 | 3 | 4 | 5 | 6, t_S: #U36_S & {kind_S: "c"}}`,
	// validators that look at the whole struct they are unified with (they first reduce it to data)
	/*37*/ `#D37_S: {a_S: int, b_S: {c_S: int}}
f37_S: {x_S: #D37_S & {a_S: 1, b_S: {c_S: 2}} & matchN(1, [{a_S: int, ...}]),
	y_S: {p_S: [1, 2, 3], q_S: {r_S: "s"}} & matchIf({p_S: [...int], ...}, {q_S: {...}, ...}, _),
	w_S: matchN(>0, [{a_S?: int, ...}]) & {a_S: 1, n_S: {m_S: 1}}}`,
	// number literals with multiplier suffixes, which encoders have to rewrite
	/*38*/ `f38_S: {limits_S: [4Ki, 1M, 250M, 3Gi, 1.5K, 0x10, 1_000], quota_S: 2Ki, sizes_S: {small_S: [1K, 2K], large_S: [1Mi, 2Mi, 3Ti]}}`,
	// a let that computes, referred to from a nested struct (the erroneous one is fragment 35)
	/*39*/ `f39_S: {let Z_S = {k_S: 3, m_S: k_S + 1}, h_S: {i_S: Z_S.m_S}, j_S: {let W_S = h_S.i_S * 2, o_S: W_S + 1}}`,
}

// program imports only the builtin packages its fragments use, so that the
// others are loaded for the first time by whichever concurrent call needs them.
func program(c *Case) string {
	var body strings.Builder
	for _, i := range c.Snippets {
		body.WriteString(strings.ReplaceAll(snippets[i%len(snippets)], "_S", "_"+c.Suffix))
		body.WriteString("\n")
	}
	var b strings.Builder
	for _, imp := range [][2]string{{"strings.", "strings"}, {"list.", "list"}, {"math.", "math"}, {"struct.", "struct"}, {"json.", "encoding/json"}} {
		if strings.Contains(body.String(), imp[0]) {
			fmt.Fprintf(&b, "import %q\n", imp[1])
		}
	}
	// a package clause with a file comment and a package comment: exporting the root with
	// comments has to arrange them, and they belong to the shared source file
	head := fmt.Sprintf("// generated program %s\n\n// Package prog_%s is what the calls look at.\npackage prog_%s\n\n", c.Suffix, c.Suffix, c.Suffix)
	return head + b.String() + body.String()
}

// paths inside snippet i that ops may look at
var snippetPaths = [][]string{
	{"", "name_S", "tags_S"}, {"", "y_S", "z_S"}, {""}, {""}, {"", "p1_S"}, {"", "kind_S"}, {"", "g_S"}, {"", "w_S"}, {""}, {"", "a_S.b_S", "r_S"},
	{"", "spec_S", "spec_S.replicas_S"}, {"", "s_S"}, {""}, {"", "have_S"}, {"", "b_S"}, {""}, {"", "list_S", "sum_S"}, {"", "b_S"}, {"", "ok_S"}, {"", "u_S"},
	{"", "u_S", "w_S", "u_S.va_S"}, {"", "sw_S", "e_S", "e_S.p_S"}, {"", "l_S"}, {"", "labels_S", "extra_S"}, {"", "out_S"}, {"", "addr_S", "tags_S", "port_S"}, {"", "b_S", "f_S"}, {"", "l_S", "m_S", "j_S"},
	{"", "lo_S"}, {"", "d_S"}, {"", "y_S", "z_S"},
	{"", "a_S", "c_S", "d_S", "e_S", "v_S", "w_S.x_S"}, {"", "bad_S", "l_S", "n_S", "o_S", "r_S", "i_S"},
	{"v_S", "w_S", "v_S", ""},
	{"x_S.a_S", "y_S.a_S", "z_S.b_S", "z_S", "x_S", ""},
	{"a_S", "a_S", ""},
	{"svc_S", "e6_S", "t_S", "svc_S", ""},
	{"x_S", "y_S", "w_S", "x_S", ""},
	{"limits_S", "sizes_S", "", "limits_S"},
	{"h_S", "j_S", ""},
}

var opKinds = []string{"lookup", "fields", "fields-all", "walk", "unify", "unify-accept", "fill", "fill-value", "validate", "validate-concrete", "default", "eval",
	"syntax", "syntax-final", "syntax-all", "decode", "json", "yaml", "equals", "subsume", "expr", "refpath", "allows", "kind", "len", "attrs", "compile", "encode", "encode-type",
	"list", "exists-concrete", "string-int", "buildexpr", "validator-eq", "validator-eq", "decode-ci", "decode-ci", "fresh-eval", "fresh-eval", "build-file", "build-instance", "expr-syntax", "err-format", "let-merge", "let-merge", "allows-many", "syntax-attrs", "unify-sub", "fill-conflict", "encode-holding"}

var affinity = map[string]struct {
	p     float64
	frags []int
}{
	"err-format":    {0.8, []int{32}},
	"expr-syntax":   {0.7, []int{31}},
	"syntax":        {0.3, []int{31, 32}},
	"syntax-all":    {0.3, []int{31, 32}},
	"kind":          {0.3, []int{31}},
	"equals":        {0.3, []int{31}},
	"validate":      {0.2, []int{32}},
	"allows":        {0.5, []int{33}},
	"allows-many":   {0.7, []int{33}},
	"default":       {0.4, []int{25, 26, 29}},
	"attrs":         {0.6, []int{34}},
	"unify-sub":     {0.6, []int{35, 36, 37, 37, 39}},
	"unify":         {0.15, []int{37}},
	"fill-value":    {0.15, []int{37}},
	"fill-conflict": {0.7, []int{36}},
	"syntax-attrs":  {0.6, []int{34}},
}

// rare branches where a badly placed preemption matters most
var hotSites = []string{"runtime.getKey:upgrade", "runtime.LoadBuiltin:before-lock", "cue.cachedTypeFields:miss", "convert.astFromGoType:miss",
	"convert.astFromGoType:store", "runtime.StoreType", "runtime.AddInst", "runtime.getNextUniqueID"}

func gen(seed uint64, tier string, idx int) sim.CaseI {
	wr := sim.NewRand(sim.Mix(seed, 1))
	kr := sim.NewRand(sim.Mix(seed, 2))
	c := &Case{Suffix: fmt.Sprintf("r%x", seed&0xffffff)}
	for _, k := range wr.Perm(len(snippets))[:wr.Range(3, 8)] {
		c.Snippets = append(c.Snippets, k)
	}
	nw := wr.Range(2, 6)
	if wr.Bool(0.15) {
		nw = wr.Range(7, 16)
	}
	nvals := 4
	hot := wr.Intn(nvals)
	hotArg := wr.Intn(5) // most operations that create new labels create the same ones
	// Rounds: the r-th call of every worker is (mostly) the same kind of call
	// on the same node of the same shared value, so that in every round several
	// goroutines meet on one possibly lazily evaluated node; a quarter of the
	// calls deviate, which gives pairs of different calls on the same node and
	// of the same call on different nodes.
	pathOf := func(sn int) string {
		paths := snippetPaths[c.Snippets[sn]%len(snippets)]
		p := fmt.Sprintf("f%d_S", c.Snippets[sn])
		if sub := paths[wr.Intn(len(paths))]; sub != "" {
			p += "." + sub
		}
		return strings.ReplaceAll(p, "_S", "_"+c.Suffix)
	}
	randOp := func() Op {
		op := Op{Kind: opKinds[wr.Intn(len(opKinds))], Val: hot, Path: pathOf(wr.Intn(len(c.Snippets))), Arg: hotArg}
		// Some calls only do something interesting on some shapes (formatting an error needs an
		// erroneous value, exporting a conjunction needs one): such a call mostly goes to a
		// fragment of that shape, which joins the program if it is not part of it yet.
		if aff, ok := affinity[op.Kind]; ok && wr.Bool(aff.p) {
			f := aff.frags[wr.Intn(len(aff.frags))]
			sn := -1
			for i, k := range c.Snippets {
				if k == f {
					sn = i
				}
			}
			if sn < 0 {
				c.Snippets = append(c.Snippets, f)
				sn = len(c.Snippets) - 1
			}
			op.Path = pathOf(sn)
		}
		if wr.Bool(0.1) || (strings.HasPrefix(op.Kind, "syntax-a") && wr.Bool(0.3)) {
			op.Path = "" // the root
		}
		if wr.Bool(0.25) {
			op.Val = wr.Intn(nvals)
		}
		if wr.Bool(0.3) {
			op.Arg = wr.Intn(5)
		}
		return op
	}
	var rounds []Op
	for r := wr.Range(3, 8); r > 0; r-- {
		rounds = append(rounds, randOp())
	}
	for w := 0; w < nw; w++ {
		wk := Worker{Own: wr.Bool(0.1)}
		for _, op := range rounds {
			if wr.Bool(0.25) {
				op = randOp()
				if wr.Bool(0.5) {
					op.Path, op.Val = rounds[wr.Intn(len(rounds))].Path, hot // another call on a node of some round
				}
			}
			wk.Ops = append(wk.Ops, op)
		}
		c.Workers = append(c.Workers, wk)
	}
	c.Spin = sim.SpinConfig{Seed: sim.Mix(seed, 3)}
	if kr.Bool(0.6) {
		for _, k := range kr.Perm(len(hotSites))[:kr.Range(1, 3)] {
			c.Spin.HotSites = append(c.Spin.HotSites, hotSites[k])
		}
		c.Spin.HotP = []float64{0.2, 0.5, 0.9}[kr.Intn(3)]
	}
	switch kr.Intn(10) {
	case 0:
		c.Spin.Policy = "sequential"
	case 1, 2:
		c.Spin.Policy = "pct"
		c.Spin.PCTDepth = kr.Range(1, 3)
		c.Spin.PCTSpan = []int{200, 2000, 20000}[kr.Intn(3)]
	case 3, 4:
		c.Spin.Policy = "uniform"
		c.Spin.SwitchP = []float64{0.002, 0.01, 0.05, 0.3}[kr.Intn(4)]
	default:
		// near lock-step: every task advances a yield point at a time, so that
		// accesses of different tasks to the same lazily evaluated node fall
		// between each other's synchronisation operations (the evaluator's own
		// atomics and locks otherwise order most of them for the race detector)
		c.Spin.Policy = "uniform"
		c.Spin.SwitchP = []float64{0.6, 1.0}[kr.Intn(2)]
	}
	return c
}

// ---------- operations ----------

type env struct {
	ctx   *cue.Context
	vals  []cue.Value
	sfx   string
	src   string // the program text
	small string // a small file that build-file / build-instance calls parse and build (each call its own AST:
	// building resolves identifiers in place, so an *ast.File is not a read-only input)

	// values compiled by "validator-eq" calls, by builtin package: every such value of one
	// context must be equal to every other, whichever goroutine loaded the package first
	mu       sync.Mutex
	compiled map[int][]cue.Value
	lets     []cue.Value // values with let clauses built by "let-merge" calls of this context
	nlets    int
}

var validators = []string{
	"import \"strings\"\nx: strings.MinRunes(3)",
	"import \"list\"\nx: list.MaxItems(4)",
	"import \"struct\"\nx: struct.MinFields(1)",
	"import \"math\"\nx: math.MultipleOf(3)",
	"import \"strings\"\nx: strings.MaxRunes(9) & strings.MinRunes(1)",
}

// build compiles the program in a fresh context and derives the shared values.
func build(c *Case) *env {
	ctx := cuecontext.New()
	root := ctx.CompileString(program(c), cue.Filename("prog.cue"))
	e := &env{ctx: ctx, sfx: c.Suffix, src: program(c)}
	e.small = fmt.Sprintf("import \"strings\"\nbf_%s: {up_%s: strings.ToUpper(\"q\"), n_%s: 1 + 2, #D_%s: {z_%s: int}, d_%s: #D_%s & {z_%s: 3}}\n", c.Suffix, c.Suffix, c.Suffix, c.Suffix, c.Suffix, c.Suffix, c.Suffix, c.Suffix)
	first := fmt.Sprintf("f%d_%s", c.Snippets[0], c.Suffix)
	extra := ctx.CompileString(fmt.Sprintf("extra_%s: {e_%s: 1}\n%s: _", c.Suffix, c.Suffix, first))
	e.vals = []cue.Value{
		root,                                  // as compiled
		root.LookupPath(cue.ParsePath(first)), // a sub-value
		root.Unify(extra),                     // derived, not yet looked at
		root.FillPath(cue.ParsePath("filled_"+c.Suffix), map[string]any{"k": 1}),
	}
	return e
}

// goCI has no json tags: CUE labels are matched to its fields exactly first and
// case-insensitively otherwise.
type goCI struct {
	Hostname string
	Port     int
	Tags     []string
	Nested   struct{ Level int }
}

// spelling varies the capitalisation of a label from the run's suffix and the call's argument.
func spelling(name, sfx string, arg int) string {
	h := uint64(arg + 1)
	for _, c := range sfx {
		h = h*131 + uint64(c)
	}
	b := []byte(name)
	for i := range b {
		if (h>>(uint(i)%60))&1 == 1 && b[i] >= 'a' && b[i] <= 'z' {
			b[i] -= 'a' - 'A'
		}
	}
	return string(b)
}

type goT struct {
	A int               `json:"a"`
	B []string          `json:"b,omitempty"`
	C map[string]string `json:"c,omitempty"`
	D *goT              `json:"d,omitempty"`
}

var posRx = regexp.MustCompile(`0x[0-9a-f]+`)

func show(v cue.Value) string {
	if err := v.Err(); err != nil {
		return "ERR " + err.Error()
	}
	return fmt.Sprintf("%v", v)
}

func synt(v cue.Value, opts ...cue.Option) string {
	n := v.Syntax(opts...)
	b, err := format.Node(n)
	if err != nil {
		return "FMTERR " + err.Error()
	}
	return string(b)
}

func doOp(e *env, op Op) (res string) {
	defer func() {
		if p := recover(); p != nil {
			buf := make([]byte, 4096)
			buf = buf[:runtime.Stack(buf, false)]
			res = fmt.Sprintf("PANIC %v\n%s", p, buf)
		}
	}()
	v := e.vals[op.Val%len(e.vals)]
	path := cue.ParsePath(op.Path)
	at := v.LookupPath(path)
	switch op.Kind {
	case "lookup":
		return show(at)
	case "fields", "fields-all":
		var opts []cue.Option
		if op.Kind == "fields-all" {
			opts = []cue.Option{cue.All(), cue.Patterns(true)}
		}
		it, err := at.Fields(opts...)
		if err != nil {
			return "ERR " + err.Error()
		}
		var b strings.Builder
		for it.Next() {
			fmt.Fprintf(&b, "%s=%s opt=%v;", it.Selector(), show(it.Value()), it.IsOptional())
		}
		return b.String()
	case "list":
		it, err := at.List()
		if err != nil {
			return "ERR " + err.Error()
		}
		var b strings.Builder
		for it.Next() {
			fmt.Fprintf(&b, "%s;", show(it.Value()))
		}
		return b.String()
	case "walk":
		var b strings.Builder
		at.Walk(func(w cue.Value) bool { fmt.Fprintf(&b, "%s:%v;", w.Path(), w.Kind()); return true }, nil)
		return b.String()
	case "unify":
		o := e.vals[(op.Val+1+op.Arg)%len(e.vals)]
		return show(v.Unify(o).LookupPath(path))
	case "unify-accept":
		o := e.vals[(op.Val+1+op.Arg)%len(e.vals)]
		return show(at.UnifyAccept(o.LookupPath(path), at))
	case "fill":
		p := cue.ParsePath(fmt.Sprintf("new_%s_%d", e.sfx, op.Arg))
		f := v.FillPath(p, goT{A: op.Arg, B: []string{"x"}, C: map[string]string{"k": "v"}})
		return show(f.LookupPath(p)) + " IN " + show(f)
	case "fill-value":
		p := cue.ParsePath(fmt.Sprintf("nv_%s_%d", e.sfx, op.Arg))
		f := v.FillPath(p, at)
		return show(f.LookupPath(p)) + " IN " + show(f)
	case "validate":
		return fmt.Sprint(at.Validate())
	case "validate-concrete":
		return fmt.Sprint(at.Validate(cue.Concrete(true), cue.Final()))
	case "default":
		d, ok := at.Default()
		return fmt.Sprintf("%s %v", show(d), ok)
	case "eval":
		return show(at.Eval())
	case "syntax":
		return synt(at)
	case "syntax-final":
		return synt(at, cue.Final(), cue.Concrete(true))
	case "syntax-all":
		return synt(at, cue.All(), cue.Docs(true), cue.Raw())
	case "decode":
		var x any
		if err := at.Decode(&x); err != nil {
			return "ERR " + err.Error()
		}
		j, _ := json.Marshal(x)
		var g goT
		err := v.LookupPath(cue.ParsePath(fmt.Sprintf("new_%s_%d", e.sfx, op.Arg))).Decode(&g)
		return string(j) + fmt.Sprintf(" %v %v", g.A, err != nil)
	case "json":
		b, err := at.MarshalJSON()
		if err != nil {
			return "ERR " + err.Error()
		}
		return string(b)
	case "yaml":
		b, err := yaml.Encode(at)
		if err != nil {
			return "ERR " + err.Error()
		}
		return string(b)
	case "equals":
		o := e.vals[(op.Val+1+op.Arg)%len(e.vals)].LookupPath(path)
		return fmt.Sprint(at.Equals(o), at.Equals(at))
	case "subsume":
		o := e.vals[(op.Val+1+op.Arg)%len(e.vals)].LookupPath(path)
		return fmt.Sprint(at.Subsume(o), o.Subsume(at, cue.Final()))
	case "expr":
		o, args := at.Expr()
		var b strings.Builder
		fmt.Fprintf(&b, "%v", o)
		for _, a := range args {
			fmt.Fprintf(&b, " [%s]", show(a))
		}
		return b.String()
	case "let-merge":
		// values built in one context, possibly at the same time, each with its own let clauses,
		// are merged into one struct: every reference must still see its own let
		e.mu.Lock()
		e.nlets++
		k := e.nlets
		e.mu.Unlock()
		var src strings.Builder
		for i := 0; i < 6; i++ {
			fmt.Fprintf(&src, "{let X = {n: %d, r: %d}, lm_%s_%d_%d: X.n + X.r}\n", 1000*k, i, e.sfx, k, i)
		}
		w := e.ctx.CompileString(src.String())
		e.mu.Lock()
		e.lets = append(e.lets, w)
		all := append([]cue.Value{}, e.lets[max(0, len(e.lets)-3):]...) // own value last, merged with the two before it
		e.mu.Unlock()
		u := all[0]
		for _, o := range all[1:] {
			u = u.Unify(o)
		}
		for i := 0; i < 6; i++ {
			got, err := u.LookupPath(cue.ParsePath(fmt.Sprintf("lm_%s_%d_%d", e.sfx, k, i))).Int64()
			if err != nil || got != int64(1000*k+i) {
				return fmt.Sprintf("WRONG: field %d of a value with its own let clause evaluates to %d (%v) after merging, want n+r", i, got, err)
			}
		}
		return "every field sees its own let"
	case "expr-syntax":
		o, args := at.Expr()
		var b strings.Builder
		fmt.Fprintf(&b, "%v", o)
		for _, a := range args {
			fmt.Fprintf(&b, " [%s | %s]", synt(a, cue.Raw()), synt(a))
		}
		return b.String()
	case "err-format":
		err := at.Err()
		if err == nil {
			err = at.Validate(cue.Concrete(true))
		}
		if err == nil {
			return "no error"
		}
		return fmt.Sprint(err) + " DETAILS " + errors.Details(err, nil) + fmt.Sprint(len(errors.Errors(err)))
	case "refpath":
		r, p := at.ReferencePath()
		return fmt.Sprintf("%v %s", r.Exists(), p)
	case "allows":
		return fmt.Sprint(at.Allows(cue.Str("zz_"+e.sfx)), at.Allows(cue.AnyString), at.IsClosed())
	case "allows-many":
		var b strings.Builder
		for _, l := range []string{"x9", "y9", "s9", "k9", "a_" + e.sfx, "zz"} {
			fmt.Fprintf(&b, "%s:%v/%v ", l, at.Allows(cue.Str(l)), at.LookupPath(cue.MakePath(cue.Str(l).Optional())).Exists())
		}
		return b.String() + fmt.Sprint(at.Allows(cue.AnyString), at.Allows(cue.AnyIndex), at.IsClosed())
	case "kind":
		return fmt.Sprint(at.Kind(), at.IncompleteKind(), at.IsConcrete(), at.Exists(), " ", v.Path(), "/", at.Path())
	case "len":
		return show(at.Len())
	case "attrs":
		var b strings.Builder
		for _, k := range []cue.AttrKind{cue.ValueAttr, cue.FieldAttr, cue.DeclAttr} {
			for _, a := range at.Attributes(k) {
				fmt.Fprintf(&b, "@%s(%s) ", a.Name(), a.Contents())
			}
			b.WriteString("| ")
		}
		for _, n := range []string{"forx", "fory", "u", "one"} {
			a := at.Attribute(n)
			fmt.Fprintf(&b, "%s=%q/%v ", n, a.Contents(), a.Err() == nil)
		}
		for _, d := range at.Doc() {
			b.WriteString(strings.TrimSpace(d.Text()) + ";")
		}
		return b.String() + fmt.Sprint(at.Pos().Line())
	case "syntax-attrs":
		return synt(at, cue.Attributes(true), cue.Docs(true))
	case "compile":
		w := e.ctx.CompileString(fmt.Sprintf("import \"strings\"\ncs_%s_%d: {u_%s_%d: %d, v: strings.ToLower(\"AB\")}", e.sfx, op.Arg, e.sfx, op.Arg, op.Arg))
		return show(w.LookupPath(cue.ParsePath(fmt.Sprintf("cs_%s_%d.u_%s_%d", e.sfx, op.Arg, e.sfx, op.Arg)))) + " IN " + show(w)
	case "buildexpr":
		if x, ok := at.Syntax(cue.Final()).(ast.Expr); ok {
			return show(e.ctx.BuildExpr(x))
		}
		return "not an expression"
	case "encode":
		return show(e.ctx.Encode(goT{A: op.Arg, D: &goT{A: 1}}))
	case "encode-holding":
		// Go values that hold shared cue.Values (the root value among them), under a name of the call's own
		name := fmt.Sprintf("h%d_%s", op.Arg, e.sfx)
		m := e.ctx.Encode(map[string]cue.Value{name: v})
		st := e.ctx.Encode(struct {
			A cue.Value `json:"a"`
			B []cue.Value
		}{at, []cue.Value{v, at}})
		return fmt.Sprintf("%v %v | %s | %s", m.LookupPath(cue.ParsePath(name)).Exists(), st.LookupPath(cue.ParsePath("a")).Exists(), v.Path(), at.Path()) +
			" | " + show(m.LookupPath(cue.ParsePath(name+"."+strings.ReplaceAll("f0_S", "_S", "_"+e.sfx))).Eval())
	case "unify-sub":
		// a value derived from a node inside the shared value (not from its root)
		o := e.ctx.CompileString(fmt.Sprintf("{us%d_%s: %d}", op.Arg, e.sfx, op.Arg))
		u := at.Unify(o)
		j, err := u.MarshalJSON()
		return fmt.Sprintf("%v %s %v", u.Validate(), j, err)
	case "fill-conflict":
		// every alternative of a disjunction fails, for a reason of the call's own
		f := at.FillPath(cue.ParsePath("kind_"+e.sfx), fmt.Sprintf("bogus-%d", op.Arg))
		return fmt.Sprint(f.Validate()) + " | " + show(f)
	case "encode-type":
		return show(e.ctx.EncodeType(goT{}))
	case "build-file":
		f, err := parser.ParseFile("shared.cue", e.small)
		if err != nil {
			return "ERR " + err.Error()
		}
		return show(e.ctx.BuildFile(f))
	case "build-instance":
		f, err := parser.ParseFile("inst.cue", strings.ReplaceAll(e.small, "bf_", "bi_"))
		if err != nil {
			return "ERR " + err.Error()
		}
		inst := cuebuild.NewContext().NewInstance("", nil)
		inst.AddSyntax(f)
		return show(e.ctx.BuildInstance(inst))
	case "fresh-eval":
		// a context of its own, created and used inside this call: values of different contexts do not interfere
		w := cuecontext.New().CompileString(e.src)
		return show(w.LookupPath(path)) + " VALID " + fmt.Sprint(w.Validate())
	case "decode-ci":
		src := fmt.Sprintf("{%s: \"h\", %s: %d, %s: [\"a\", \"b\"], %s: %s: 2}", spelling("hostname", e.sfx, op.Arg), spelling("port", e.sfx, op.Arg),
			8000+op.Arg, spelling("tags", e.sfx, op.Arg), spelling("nested", e.sfx, op.Arg), spelling("level", e.sfx, op.Arg))
		var g goCI
		if err := e.ctx.CompileString(src).Decode(&g); err != nil {
			return "ERR " + err.Error()
		}
		return fmt.Sprintf("%+v", g)
	case "validator-eq":
		k := op.Arg % len(validators)
		w := e.ctx.CompileString(validators[k]).LookupPath(cue.ParsePath("x"))
		e.mu.Lock()
		prev := append([]cue.Value{}, e.compiled[k]...)
		if e.compiled == nil {
			e.compiled = map[int][]cue.Value{}
		}
		e.compiled[k] = append(e.compiled[k], w)
		e.mu.Unlock()
		for _, p := range prev {
			if !w.Equals(p) || !p.Equals(w) {
				return "NOT EQUAL to a value of the same expression compiled by another call: " + show(w)
			}
		}
		return "equal to all: " + show(w)
	case "exists-concrete":
		return fmt.Sprint(at.Exists(), at.IsConcrete(), at.Err() == nil)
	case "string-int":
		s, e1 := at.String()
		i, e2 := at.Int64()
		return fmt.Sprint(s, e1 != nil, i, e2 != nil)
	}
	return "unknown op " + op.Kind
}

// ---------- execution ----------

var raceLogPath = os.Getenv("CUESIM_RACELOG")

func raceLogSize() int64 {
	if raceLogPath == "" {
		return 0
	}
	fi, err := os.Stat(fmt.Sprintf("%s.%d", raceLogPath, os.Getpid()))
	if err != nil {
		return 0
	}
	return fi.Size()
}

func raceLogSince(off int64) string {
	data, err := os.ReadFile(fmt.Sprintf("%s.%d", raceLogPath, os.Getpid()))
	if err != nil || int64(len(data)) <= off {
		return ""
	}
	return string(data[off:])
}

type frame struct {
	fn   string
	file string
	line int
}

var srcCache = map[string][]string{}

func srcLine(file string, line int) string {
	ls, ok := srcCache[file]
	if !ok {
		data, _ := os.ReadFile(file)
		ls = strings.Split(string(data), "\n")
		srcCache[file] = ls
	}
	if line < 1 || line > len(ls) {
		return "?"
	}
	return strings.Join(strings.Fields(ls[line-1]), " ")
}

// raceKey names a race report by its two call sites: for each of the two
// stacks, the innermost frame outside the evaluator core (internal/core/adt)
// — the function that reached into a shared vertex — together with the source
// text of the line it was executing. Line numbers are left out, so the key
// survives unrelated edits, and one call site has one name.
func raceKey(report string) (key string, inHarness bool) {
	var sides []string
	for _, sec := range strings.Split(report, "\n\n") {
		head := strings.TrimSpace(sec)
		if i := strings.Index(head, "WARNING: DATA RACE\n"); i >= 0 {
			head = strings.TrimSpace(head[i+len("WARNING: DATA RACE\n"):])
		}
		if !(strings.HasPrefix(head, "Write at") || strings.HasPrefix(head, "Read at") || strings.HasPrefix(head, "Previous write at") ||
			strings.HasPrefix(head, "Previous read at") || strings.HasPrefix(head, "Atomic") || strings.HasPrefix(head, "Previous atomic")) {
			continue
		}
		var frames []frame
		lines := strings.Split(sec, "\n")
		for i := 0; i+1 < len(lines); i++ {
			l := lines[i]
			if strings.HasPrefix(l, "  ") && !strings.HasPrefix(l, "   ") && strings.HasPrefix(lines[i+1], "      ") {
				fn := strings.TrimSpace(l)
				if j := strings.LastIndex(fn, "("); j > 0 {
					fn = fn[:j]
				}
				loc := strings.Fields(strings.TrimSpace(lines[i+1]))
				f := frame{fn: fn}
				if len(loc) > 0 {
					if j := strings.LastIndex(loc[0], ":"); j > 0 {
						f.file = loc[0][:j]
						fmt.Sscan(loc[0][j+1:], &f.line)
					}
				}
				frames = append(frames, f)
			}
		}
		if len(frames) == 0 {
			continue
		}
		if strings.Contains(frames[0].fn, "verifsim/sim.") || strings.Contains(frames[0].fn, "internal/simhook.") {
			inHarness = true
		}
		site := frames[0]
		for _, f := range frames {
			if strings.Contains(f.fn, "verifsim/") {
				break
			}
			if !strings.HasPrefix(f.fn, "cuelang.org/go/") {
				continue // Go runtime and standard library frames (map access, sort, …)
			}
			site = f
			if !strings.HasPrefix(f.fn, "cuelang.org/go/internal/core/adt.") {
				break
			}
		}
		short := func(fn string) string {
			return strings.TrimPrefix(strings.TrimPrefix(fn, "cuelang.org/go/internal/core/"), "cuelang.org/go/")
		}
		// the route inside the evaluator core: the (at most four) innermost evaluator
		// functions below that call site. One call site (cue.Unify, say) reaches shared
		// nodes along several routes with different causes; the route tells them apart.
		var route []string
		for _, f := range frames {
			if f == site || len(route) == 4 {
				break
			}
			if strings.HasPrefix(f.fn, "cuelang.org/go/internal/core/adt.") {
				route = append(route, short(f.fn))
			}
		}
		side := short(site.fn) + ": " + srcLine(site.file, site.line)
		if len(route) > 0 {
			side += " [" + strings.Join(route, "<") + "]"
		}
		sides = append(sides, side)
		if len(sides) == 2 {
			break
		}
	}
	sort.Strings(sides)
	return strings.Join(sides, " | "), inHarness
}

func exec(t *testing.T, ci sim.CaseI, choices []uint32, keepLog bool) *sim.Outcome {
	c := ci.(*Case)
	runtime.GOMAXPROCS(1)
	shared := build(c)
	results := make([][]string, len(c.Workers))
	bodies := make([]func(), len(c.Workers))
	for i, w := range c.Workers {
		results[i] = make([]string, len(w.Ops))
		bodies[i] = func() {
			e := shared
			if w.Own {
				e = build(c)
			}
			for j, op := range w.Ops {
				results[i][j] = doOp(e, op)
			}
		}
	}
	cfg := c.Spin
	cfg.Choices = choices
	logOff := raceLogSize()
	sr := sim.RunSpin(cfg, bodies)
	report := raceLogSince(logOff)

	out := &sim.Outcome{Faults: map[string]int{}, Counters: map[string]int{}}
	out.Res.Choices = sr.Choices
	out.Res.Steps = int(sr.Yields)
	out.Res.Switches = int(sr.Switches)
	out.Res.Hash = sr.Hash
	out.Res.SiteHits = sr.SiteYields
	out.Res.SiteParks = sr.SiteSwitches
	out.Res.Probes = sr.Probes
	out.NonTrivial = sr.Switches >= 1
	out.Counters[fmt.Sprintf("workers-%d", min(len(c.Workers), 8))]++
	if keepLog {
		n := 0
		for i, ch := range sr.Choices {
			if ch != 0 && n < 200 {
				out.Res.Log = append(out.Res.Log, fmt.Sprintf("decision %d: switch to candidate %d", i, ch))
				n++
			}
		}
	}

	// oracle 1: the race detector
	if strings.Contains(report, "DATA RACE") {
		key, inHarness := raceKey(report)
		if inHarness {
			sim.Trouble("race report inside simulator code:\n%s", report)
		}
		out.Res.Violation = &sim.Violation{Class: "data-race", Msg: report}
		out.Key = "data-race: " + key
		return out
	}

	// oracle 2: sequential answers, computed afterwards on a fresh context
	ref := build(c)
	for i, w := range c.Workers {
		e := ref
		if w.Own {
			e = build(c)
		}
		for j, op := range w.Ops {
			want := doOp(e, op)
			if got := results[i][j]; posRx.ReplaceAllString(got, "0x") != posRx.ReplaceAllString(want, "0x") {
				cls := "wrong-answer"
				if strings.HasPrefix(got, "PANIC") {
					cls = "panic"
				}
				out.Res.Violation = &sim.Violation{Class: cls, Msg: fmt.Sprintf("worker %d op %d %+v under concurrency:\n%s\nalone:\n%s", i, j, op, trunc(got), trunc(want))}
				out.Key = cls + ": " + op.Kind + whereOf(op, got, want)
				return out
			}
		}
	}
	// oracle 3: the shared values are unchanged afterwards
	for i, w := range c.Workers {
		if w.Own {
			continue
		}
		for j, op := range w.Ops {
			got := doOp(shared, op)
			want := doOp(ref, op)
			if posRx.ReplaceAllString(got, "0x") != posRx.ReplaceAllString(want, "0x") {
				out.Res.Violation = &sim.Violation{Class: "shared-value-changed", Msg: fmt.Sprintf("after the concurrent phase, op %+v (worker %d op %d) on the shared value:\n%s\non a fresh copy:\n%s", op, i, j, trunc(got), trunc(want))}
				out.Key = "shared-value-changed: " + op.Kind + whereOf(op, got, want)
				return out
			}
		}
	}
	return out
}

// whereOf names the fragment a differing answer is about: the one the call was aimed at
// and, when the two answers differ in text that mentions another fragment (calls on the
// root see all of them), that one. A known finding about one input shape can then be keyed
// by the fragment that has the shape without covering wrong answers anywhere else.
func whereOf(op Op, got, want string) string {
	frag := func(s string) string {
		if !strings.HasPrefix(s, "f") {
			return ""
		}
		i := 1
		for i < len(s) && s[i] >= '0' && s[i] <= '9' {
			i++
		}
		if i == 1 {
			return ""
		}
		return s[:i]
	}
	w := " on root"
	if f := frag(op.Path); f != "" {
		w = " on " + f
	}
	// first difference between the two answers, and the fragment name nearest before it
	n := 0
	for n < len(got) && n < len(want) && got[n] == want[n] {
		n++
	}
	for _, s := range []string{got, want} {
		lo := max(0, min(n, len(s))-400)
		hi := min(len(s), n+400)
		seg := s[lo:hi]
		for k := 0; k+1 < len(seg); k++ {
			if seg[k] == 'f' && (k == 0 || !(seg[k-1] >= 'a' && seg[k-1] <= 'z' || seg[k-1] >= '0' && seg[k-1] <= '9' || seg[k-1] == '_')) {
				if f := frag(seg[k:]); f != "" && strings.HasPrefix(seg[k+len(f):], "_r") && !strings.Contains(w, f+" ") && !strings.HasSuffix(w, f) {
					w += " [differs near " + f + "]"
				}
			}
		}
	}
	return w
}

func trunc(s string) string {
	if len(s) > 1500 {
		return s[:1500] + "…"
	}
	return s
}

var _ = bytes.NewBuffer

var Prop = &sim.Prop{
	ID:       "C19",
	Isolated: true,
	New:      func() sim.CaseI { return &Case{} },
	Gen:      gen,
	Exec:     exec,
	Rule:     "case = generated program (3-8 fragments of 20: definitions and closedness, defaults and disjunctions, comprehensions, references and cycles, pattern constraints, optional/required fields, let, lists, builtin packages strings/list/math/struct/json loaded lazily; label names fresh per run) x 2-16 caller goroutines x 3-10 API operations each of 33 kinds on four shared values (as compiled, a sub-value, an unevaluated Unify result, a FillPath result) or on a context of their own x scheduler policy (PCT with 1-3 change points, uniform switch probability 0.2%-30%, sequential), all from the run seed; non-trivial = at least one context switch happened at a yield point; distinct = distinct hash of the positions and targets of all context switches",
	Real:     []string{"cue API", "internal/core/{adt,compile,runtime,convert,export,eval,subsume,validate}", "cue/format", "encoding/yaml", "builtin packages", "Go race detector"},
	Stubs:    []string{"none (caller goroutines are the simulated nodes)"},
}

func TestWorker(t *testing.T) { sim.WorkerMain(t, Prop) }
