package c19

import (
	"fmt"
	"os"
	"runtime"
	"strconv"
	"sync"
	"testing"

	"cuelang.org/go/verifsim/sim"
)

// TestFreeRun is NOT part of any check: it runs generated cases on free-running
// goroutines (no simulator) so that the race detector's reports can be compared
// with what the simulated schedules find. Used once to enumerate the races
// that exist on the unchanged tree (DESIGN §11). Needs CUESIM_FREERUN=<runs>.
func TestFreeRun(t *testing.T) {
	n, _ := strconv.Atoi(os.Getenv("CUESIM_FREERUN"))
	if n == 0 {
		t.Skip("CUESIM_FREERUN not set")
	}
	runtime.GOMAXPROCS(8)
	seen := map[string]int{}
	for i := 0; i < n; i++ {
		c := gen(sim.Mix(777+freeSeed(), uint64(i)), "quick", i).(*Case)
		shared := build(c)
		off := raceLogSize()
		var wg sync.WaitGroup
		for _, w := range c.Workers {
			wg.Add(1)
			go func() {
				defer wg.Done()
				e := shared
				if w.Own {
					e = build(c)
				}
				for _, op := range w.Ops {
					doOp(e, op)
				}
			}()
		}
		wg.Wait()
		if rep := raceLogSince(off); rep != "" {
			k, _ := raceKey(rep)
			seen[k]++
		}
	}
	for k, v := range seen {
		fmt.Printf("FREERUN-RACE %d x %s\n", v, k)
	}
}

func freeSeed() uint64 {
	v, _ := strconv.ParseUint(os.Getenv("CUESIM_FREESEED"), 10, 64)
	return v * 1000003
}
