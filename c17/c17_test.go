// Package c17 decides property C17 (its schedule/fault dependent part): cue mod
// tidy reaches a correct fixpoint whatever the schedule of the concurrent
// package loader and of the registry's answers.
//
// Real code: internal/mod/modload (Tidy, CheckTidy), internal/mod/modpkgload,
// internal/mod/modrequirements, internal/mod/mvs.Graph, internal/mod/modimports,
// internal/par (Queue, Cache), mod/modfile (Parse, Format), the CUE parser.
// Stub: the registry (in-memory modload.Registry whose methods park) and all
// file systems (in-memory fs.FS whose operations may park or fail).
package c17

import (
	"bytes"
	"context"
	"encoding/json"
	"errors"
	"fmt"
	"io"
	"io/fs"
	"net/http"
	"net/http/httptest"
	"os"
	"path/filepath"
	"runtime"
	"sort"
	"strings"
	"sync"
	"testing"
	"testing/fstest"
	"time"

	"cuelabs.dev/go/oci/ociregistry/ociclient"
	"cuelabs.dev/go/oci/ociregistry/ocimem"
	"cuelabs.dev/go/oci/ociregistry/ociserver"
	"cuelang.org/go/mod/modcache"
	"cuelang.org/go/mod/modzip"

	"cuelang.org/go/internal/mod/modload"
	"cuelang.org/go/mod/modfile"
	"cuelang.org/go/mod/modregistry"
	"cuelang.org/go/mod/module"
	"cuelang.org/go/verifsim/sim"
)

// ---------- case ----------

type Req struct {
	P       string `json:"p"`
	V       string `json:"v"`
	Default bool   `json:"default,omitempty"`
}

type Pkg struct {
	Dir     string   `json:"dir"` // "" = module root
	Imports []string `json:"imports,omitempty"`
	Ignore  bool     `json:"ignore,omitempty"` // a second file with @ignore() importing Extra
	Extra   string   `json:"extra,omitempty"`
	Tool    bool     `json:"tool,omitempty"` // a _tool.cue file importing Extra
	// Up: an import made by a file of the same package that lies at the module root, with the
	// directories in between holding no file of the package (a package consists of the files
	// of that name in its directory and in every directory above it).
	Up string `json:"up,omitempty"`
}

type ModVer struct {
	Path    string `json:"path"` // ex.com/m0@v0
	Version string `json:"version"`
	Deps    []Req  `json:"deps,omitempty"`
	Pkgs    []Pkg  `json:"pkgs"`
}

type CallFault struct {
	Method string `json:"method"` // Fetch | ModFile | ModuleVersions | FS
	N      int    `json:"n"`      // the n-th call of that method fails (1-based)
}

type Case struct {
	Sched    sim.SchedConfig `json:"sched"`
	Procs    int             `json:"gomaxprocs"`
	Mods     []ModVer        `json:"mods"`
	MainDeps []Req           `json:"main_deps,omitempty"`
	MainPkgs []Pkg           `json:"main_pkgs"`
	Shuffle  bool            `json:"shuffle_versions,omitempty"`
	FSPark   float64         `json:"fs_park,omitempty"`
	Faults   []CallFault     `json:"faults,omitempty"`
	CancelAt int             `json:"cancel_at,omitempty"` // cancel the context at the CancelAt-th registry call
	// Stack: "" = in-memory registry stub; "cache" = the real stack the cue command uses: mod/modcache
	// (memoising module files and zips, real cache directory) over mod/modregistry over ociclient, with
	// the wire simulated by a parking http.RoundTripper in front of ociserver/ocimem.
	Stack string `json:"stack,omitempty"`
}

func (c *Case) SchedCfg() *sim.SchedConfig { return &c.Sched }

func (c *Case) Summary() any {
	return map[string]any{"policy": c.Sched.Policy, "stack": c.Stack, "gomaxprocs": c.Procs, "registry": c.Mods, "main_deps": c.MainDeps, "main_pkgs": c.MainPkgs,
		"faults": c.Faults, "cancel_at": c.CancelAt, "fs_park": c.FSPark, "yield_park": c.Sched.YieldPark}
}

func (c *Case) clone() *Case {
	var d Case
	data, _ := json.Marshal(c)
	json.Unmarshal(data, &d)
	return &d
}

func (c *Case) Shrinks() []sim.CaseI {
	var out []sim.CaseI
	for i := range c.Faults {
		d := c.clone()
		d.Faults = append(d.Faults[:i], d.Faults[i+1:]...)
		out = append(out, d)
	}
	if c.CancelAt > 0 {
		d := c.clone()
		d.CancelAt = 0
		out = append(out, d)
	}
	for i := range c.Mods {
		// dropping a module version also drops every requirement on it: the registry stays well-formed
		d := c.clone()
		gone := d.Mods[i]
		d.Mods = append(d.Mods[:i], d.Mods[i+1:]...)
		strip := func(rs []Req) []Req {
			var o []Req
			for _, r := range rs {
				if r.P != gone.Path || r.V != gone.Version {
					o = append(o, r)
				}
			}
			return o
		}
		for j := range d.Mods {
			d.Mods[j].Deps = strip(d.Mods[j].Deps)
		}
		d.MainDeps = strip(d.MainDeps)
		out = append(out, d)
	}
	for i := range c.MainDeps {
		d := c.clone()
		d.MainDeps = append(d.MainDeps[:i], d.MainDeps[i+1:]...)
		out = append(out, d)
	}
	for i, p := range c.MainPkgs {
		if len(c.MainPkgs) > 1 {
			d := c.clone()
			d.MainPkgs = append(d.MainPkgs[:i], d.MainPkgs[i+1:]...)
			out = append(out, d)
		}
		for j := range p.Imports {
			d := c.clone()
			d.MainPkgs[i].Imports = append(d.MainPkgs[i].Imports[:j], d.MainPkgs[i].Imports[j+1:]...)
			out = append(out, d)
		}
	}
	for i, m := range c.Mods {
		for j, p := range m.Pkgs {
			if len(m.Pkgs) > 1 {
				d := c.clone()
				d.Mods[i].Pkgs = append(d.Mods[i].Pkgs[:j], d.Mods[i].Pkgs[j+1:]...)
				out = append(out, d)
			}
			for k := range p.Imports {
				d := c.clone()
				d.Mods[i].Pkgs[j].Imports = append(d.Mods[i].Pkgs[j].Imports[:k], d.Mods[i].Pkgs[j].Imports[k+1:]...)
				out = append(out, d)
			}
		}
		for j := range m.Deps {
			d := c.clone()
			d.Mods[i].Deps = append(d.Mods[i].Deps[:j], d.Mods[i].Deps[j+1:]...)
			out = append(out, d)
		}
	}
	if c.FSPark > 0 {
		d := c.clone()
		d.FSPark = 0
		out = append(out, d)
	}
	if c.Sched.YieldPark > 0 {
		d := c.clone()
		d.Sched.YieldPark = 0
		out = append(out, d)
	}
	return out
}

// ---------- generator ----------

const mainPath = "main.test@v0"

var stdlib = []string{"strings", "list", "encoding/json"}

func gen(seed uint64, tier string, idx int) sim.CaseI {
	wr := sim.NewRand(sim.Mix(seed, 1))
	kr := sim.NewRand(sim.Mix(seed, 2))
	c := &Case{}
	// module paths
	type mp struct {
		path string // with major
		base string
		vers []string
		dirs []string // package directories that exist in at least one version
	}
	var mps []*mp
	np := wr.Range(1, 6)
	if tier == "thorough" && wr.Bool(0.2) {
		np = wr.Range(4, 9)
	}
	for i := 0; i < np; i++ {
		m := &mp{base: fmt.Sprintf("ex.com/m%d", i)}
		if i > 0 && wr.Bool(0.15) { // nested module path: both can provide the same package
			m.base = mps[wr.Intn(len(mps))].base + "/n"
			for _, o := range mps {
				if o.base == m.base {
					m.base = fmt.Sprintf("ex.com/m%d", i)
				}
			}
		}
		maj := "v0"
		if wr.Bool(0.15) {
			maj = "v1"
		}
		m.path = m.base + "@" + maj
		pool := []string{"v0.1.0", "v0.2.0", "v0.2.1-pre", "v0.3.0"}
		if maj == "v1" {
			pool = []string{"v1.0.0", "v1.1.0-rc.1", "v1.1.0"}
		}
		nv := wr.Range(1, 3)
		for _, k := range wr.Perm(len(pool))[:nv] {
			m.vers = append(m.vers, pool[k])
		}
		sort.Strings(m.vers)
		for d := wr.Range(1, 3); d > 0; d-- {
			dir := fmt.Sprintf("p%d", wr.Intn(4))
			if wr.Bool(0.1) {
				dir = "n/" + dir // collides with a nested module's package
			}
			dup := false
			for _, e := range m.dirs {
				dup = dup || e == dir
			}
			if !dup {
				m.dirs = append(m.dirs, dir)
			}
		}
		mps = append(mps, m)
		// a second major version of the same base
		if maj == "v0" && wr.Bool(0.12) {
			m2 := &mp{base: m.base, path: m.base + "@v1", vers: []string{"v1.0.0"}, dirs: m.dirs}
			mps = append(mps, m2)
		}
	}
	// Shape "two majors over two majors": both major versions of one module are in the build, each
	// imports the same package of another module without a major version, and their module files
	// declare different default majors for it. What such an import means depends on the module
	// file of the importing module *version*, not on its base path.
	var twinB, twinD *mp
	if len(mps) >= 2 && wr.Bool(0.1) {
		var v0s []*mp
		for _, m := range mps {
			if strings.HasSuffix(m.path, "@v0") && !strings.HasSuffix(m.base, "/n") {
				v0s = append(v0s, m)
			}
		}
		if len(v0s) >= 2 {
			k := wr.Perm(len(v0s))
			twinB, twinD = v0s[k[0]], v0s[k[1]]
			for _, m := range []*mp{twinB, twinD} {
				has := false
				for _, o := range mps {
					has = has || o.path == m.base+"@v1"
				}
				if !has {
					mps = append(mps, &mp{base: m.base, path: m.base + "@v1", vers: []string{"v1.0.0"}, dirs: m.dirs})
				}
			}
		}
	}
	pickImport := func(exclude string) string {
		if wr.Bool(0.08) {
			return stdlib[wr.Intn(len(stdlib))]
		}
		if wr.Bool(0.04) {
			return fmt.Sprintf("ex.com/missing%d/p0@v0", wr.Intn(2))
		}
		for tries := 0; tries < 8; tries++ {
			m := mps[wr.Intn(len(mps))]
			if m.path == exclude {
				continue
			}
			dir := m.dirs[wr.Intn(len(m.dirs))]
			maj := m.path[strings.LastIndex(m.path, "@"):]
			if wr.Bool(0.12) {
				maj = "" // relies on a default major version
			}
			return m.base + "/" + dir + maj
		}
		return "strings"
	}
	for _, m := range mps {
		for vi, v := range m.vers {
			mv := ModVer{Path: m.path, Version: v}
			for _, dir := range m.dirs {
				if vi == 0 && len(m.vers) > 1 && wr.Bool(0.25) {
					continue // package exists only from a later version on
				}
				p := Pkg{Dir: dir}
				for k := wr.Intn(3); k > 0; k-- {
					p.Imports = append(p.Imports, pickImport(m.path))
				}
				mv.Pkgs = append(mv.Pkgs, p)
			}
			if len(mv.Pkgs) == 0 {
				mv.Pkgs = append(mv.Pkgs, Pkg{Dir: m.dirs[0]})
			}
			if twinB != nil && m.base == twinB.base {
				mv.Pkgs[0].Imports = append(mv.Pkgs[0].Imports, twinD.base+"/"+twinD.dirs[0])
			}
			for k := range mv.Pkgs {
				if strings.Contains(mv.Pkgs[k].Dir, "/") && wr.Bool(0.35) {
					o := mps[wr.Intn(len(mps))]
					if o.base != m.base {
						mv.Pkgs[k].Up = o.base + "/" + o.dirs[wr.Intn(len(o.dirs))] + o.path[strings.LastIndex(o.path, "@"):]
					}
				}
			}
			// a published module lists the modules its imports need (at some version)
			seen := map[string]bool{}
			for _, p := range mv.Pkgs {
				imps := p.Imports
				if p.Up != "" {
					imps = append(append([]string{}, imps...), p.Up)
				}
				for _, imp := range imps {
					for _, o := range mps {
						if o.base != m.base && strings.HasPrefix(imp, o.base+"/") && !seen[o.path] && (strings.HasSuffix(imp, o.path[strings.LastIndex(o.path, "@"):]) || !strings.Contains(imp, "@")) {
							if wr.Bool(0.9) {
								seen[o.path] = true
								mv.Deps = append(mv.Deps, Req{P: o.path, V: o.vers[wr.Intn(len(o.vers))], Default: !strings.Contains(imp, "@")})
							}
						}
					}
				}
			}
			if twinB != nil && m.base == twinB.base {
				// exactly one default major of twinD per major of twinB
				deps := mv.Deps[:0]
				for _, d := range mv.Deps {
					if !strings.HasPrefix(d.P, twinD.base+"@") {
						deps = append(deps, d)
					}
				}
				maj := m.path[strings.LastIndex(m.path, "@"):]
				v := "v1.0.0"
				if maj == "@v0" {
					v = twinD.vers[wr.Intn(len(twinD.vers))]
				}
				mv.Deps = append(deps, Req{P: twinD.base + maj, V: v, Default: true})
			}
			c.Mods = append(c.Mods, mv)
		}
	}
	sim.Shuffle(wr, c.Mods)
	// main module
	for _, dir := range []string{"", "sub", "cmd/x"}[:wr.Range(1, 3)] {
		p := Pkg{Dir: dir}
		for k := wr.Range(1, 4); k > 0; k-- {
			p.Imports = append(p.Imports, pickImport(""))
		}
		if dir != "" && wr.Bool(0.3) {
			p.Imports = append(p.Imports, "main.test/sub@v0")
		}
		if wr.Bool(0.15) {
			// the same module imported once with its major version and once without — and, if it
			// has another major, that one too
			m := mps[wr.Intn(len(mps))]
			maj := m.path[strings.LastIndex(m.path, "@"):]
			p.Imports = append(p.Imports, m.base+"/"+m.dirs[0]+maj, m.base+"/"+m.dirs[len(m.dirs)-1])
			for _, o := range mps {
				if o.base == m.base && o.path != m.path {
					p.Imports = append(p.Imports, o.base+"/"+o.dirs[wr.Intn(len(o.dirs))]+o.path[strings.LastIndex(o.path, "@"):])
				}
			}
		}
		if twinB != nil && dir == "" {
			p.Imports = append(p.Imports, twinB.base+"/"+twinB.dirs[0]+"@v0", twinB.base+"/"+twinB.dirs[0]+"@v1")
		}
		if wr.Bool(0.15) {
			p.Ignore, p.Extra = true, pickImport("")
		} else if wr.Bool(0.15) {
			p.Tool, p.Extra = true, pickImport("")
		}
		c.MainPkgs = append(c.MainPkgs, p)
	}
	// a stale, partial, excessive or empty dependency list
	switch wr.Intn(4) {
	case 0:
	default:
		for _, m := range mps {
			if wr.Bool(0.5) {
				c.MainDeps = append(c.MainDeps, Req{P: m.path, V: m.vers[wr.Intn(len(m.vers))], Default: wr.Bool(0.3)})
			}
		}
	}
	// knobs
	c.Procs = []int{1, 2, 4, 32}[kr.Intn(4)]
	c.Shuffle = kr.Bool(0.5)
	c.FSPark = []float64{0, 0, 0.05, 0.3}[kr.Intn(4)]
	c.Sched = sim.SchedConfig{Seed: sim.Mix(seed, 3), YieldPark: []float64{0, 0.05, 0.3, 1}[kr.Intn(4)], YieldSites: []string{"modpkgload."}}
	switch kr.Intn(10) {
	case 0:
		c.Sched.Policy = "sequential"
	case 1, 2, 3:
		c.Sched.Policy = "latency"
		c.Sched.LatencyMs = map[sim.Kind][2]int{sim.KCall: {1, 1 + kr.Intn(300)}, sim.KIO: {0, kr.Intn(10)}, sim.KStart: {0, kr.Intn(3)}, sim.KYield: {0, 1}, sim.KLock: {0, 1}}
		if kr.Bool(0.5) {
			m := mps[kr.Intn(len(mps))]
			c.Sched.SlowTask = m.base
			c.Sched.SlowFactor = 5 + kr.Intn(40)
		}
	case 4, 5:
		c.Sched.Policy = "pct"
		c.Sched.PCTDepth = kr.Range(1, 3)
		c.Sched.PCTSpan = 300
	default:
		c.Sched.Policy = "uniform"
		if kr.Bool(0.3) {
			c.Sched.Sticky = 0.6
		}
	}
	if kr.Bool(0.15) {
		c.Stack = "cache"
	}
	// fault plan (schedules only over the real stack: its error texts and retry behaviour are its own)
	switch kr.Intn(10) {
	case 0, 1:
		if c.Stack == "cache" {
			break
		}
		c.Faults = append(c.Faults, CallFault{Method: []string{"Fetch", "ModFile", "ModuleVersions"}[kr.Intn(3)], N: kr.Range(1, 8)})
	case 2:
		if c.Stack != "cache" {
			c.Faults = append(c.Faults, CallFault{Method: "FS", N: kr.Range(1, 60)})
		}
	case 3:
		if c.Stack != "cache" {
			c.CancelAt = kr.Range(1, 12)
		}
	}
	return c
}

// ---------- universe ----------

func pkgFiles(prefix, pkgName string, p Pkg) map[string]string {
	out := map[string]string{}
	var b strings.Builder
	fmt.Fprintf(&b, "package %s\n", pkgName)
	if len(p.Imports) > 0 {
		b.WriteString("import (\n")
		seen := map[string]bool{}
		for _, imp := range p.Imports {
			if !seen[imp] {
				seen[imp] = true
				fmt.Fprintf(&b, "\t_ %q\n", imp)
			}
		}
		b.WriteString(")\n")
	}
	dir := prefix
	if p.Dir != "" {
		dir = prefix + p.Dir + "/"
	}
	out[dir+"x.cue"] = b.String()
	if p.Ignore && p.Extra != "" {
		out[dir+"ignored.cue"] = fmt.Sprintf("@ignore()\npackage %s\nimport _ %q\n", pkgName, p.Extra)
	}
	if p.Tool && p.Extra != "" {
		out[dir+"x_tool.cue"] = fmt.Sprintf("package %s\nimport _ %q\n", pkgName, p.Extra)
	}
	if p.Up != "" {
		out[prefix+"anc_"+pkgName+".cue"] = fmt.Sprintf("package %s\nimport _ %q\n", pkgName, p.Up)
	}
	return out
}

func pkgName(dir, fallback string) string {
	if dir == "" {
		return fallback
	}
	return dir[strings.LastIndex(dir, "/")+1:]
}

func modFileText(path string, deps []Req) string {
	var b strings.Builder
	fmt.Fprintf(&b, "module: %q\nlanguage: version: \"v0.9.0\"\n", path)
	seen := map[string]bool{}
	defaulted := map[string]bool{}
	for _, d := range deps {
		if seen[d.P] {
			continue
		}
		seen[d.P] = true
		base := d.P[:strings.LastIndex(d.P, "@")]
		if d.Default && !defaulted[base] {
			defaulted[base] = true
			fmt.Fprintf(&b, "deps: %q: {v: %q, default: true}\n", d.P, d.V)
		} else {
			fmt.Fprintf(&b, "deps: %q: v: %q\n", d.P, d.V)
		}
	}
	return b.String()
}

var (
	parseMu    sync.Mutex
	parseCache = map[string]*modfile.File{}
)

func parseModFile(text string) (*modfile.File, error) {
	parseMu.Lock()
	defer parseMu.Unlock()
	if f, ok := parseCache[text]; ok {
		return f, nil
	}
	f, err := modfile.Parse([]byte(text), "cue.mod/module.cue")
	if err != nil {
		return nil, err
	}
	if len(parseCache) > 20000 {
		parseCache = map[string]*modfile.File{}
	}
	parseCache[text] = f
	return f, nil
}

type modData struct {
	mv    module.Version
	files fstest.MapFS
	mf    *modfile.File
}

type universe struct {
	mods     map[module.Version]*modData
	versions map[string][]string // module path with major → versions in semver order
	mainFS   fstest.MapFS
}

func buildUniverse(c *Case, mainDeps []Req) (*universe, error) {
	u := &universe{mods: map[module.Version]*modData{}, versions: map[string][]string{}}
	for _, m := range c.Mods {
		mv, err := module.NewVersion(m.Path, m.Version)
		if err != nil {
			return nil, err
		}
		if u.mods[mv] != nil {
			continue
		}
		text := modFileText(m.Path, m.Deps)
		mf, err := parseModFile(text)
		if err != nil {
			return nil, fmt.Errorf("%v: %v\n%s", mv, err, text)
		}
		files := fstest.MapFS{"cue.mod/module.cue": &fstest.MapFile{Data: []byte(text)}}
		for _, p := range m.Pkgs {
			for name, data := range pkgFiles("", pkgName(p.Dir, "root"), p) {
				files[name] = &fstest.MapFile{Data: []byte(data)}
			}
		}
		u.mods[mv] = &modData{mv: mv, files: files, mf: mf}
		u.versions[m.Path] = append(u.versions[m.Path], m.Version)
	}
	for p := range u.versions {
		vs := u.versions[p]
		sort.Slice(vs, func(i, j int) bool {
			return module.MustNewVersion(p, vs[i]).Compare(module.MustNewVersion(p, vs[j])) < 0
		})
	}
	u.mainFS = fstest.MapFS{"cue.mod/module.cue": &fstest.MapFile{Data: []byte(modFileText(mainPath, mainDeps))}}
	for _, p := range c.MainPkgs {
		for name, data := range pkgFiles("", pkgName(p.Dir, "main"), p) {
			u.mainFS[name] = &fstest.MapFile{Data: []byte(data)}
		}
	}
	return u, nil
}

// ---------- stubs: registry and file systems ----------

type harness struct {
	c        *Case
	s        *sim.Sched
	u        *universe
	ctx      context.Context
	cancel   context.CancelFunc
	mu       sync.Mutex
	calls    map[string]int
	regCalls int
	faults   map[string]int
	cnt      map[string]int
	inflight int
	maxFly   int
	quiet    bool // reference run: no parking, no faults
	reg      modload.Registry
}

var errInjected = errors.New("injected registry failure")

func (h *harness) call(ctx context.Context, method, detail string) error {
	if h.quiet {
		return nil
	}
	h.mu.Lock()
	h.calls[method]++
	n := h.calls[method]
	if method != "FS" {
		h.regCalls++
		if h.c.CancelAt > 0 && h.regCalls == h.c.CancelAt {
			h.faults["cancel"]++
			h.cancel()
		}
	}
	fail := false
	for _, f := range h.c.Faults {
		if f.Method == method && f.N == n {
			fail = true
		}
	}
	h.inflight++
	if h.inflight > h.maxFly {
		h.maxFly = h.inflight
	}
	h.mu.Unlock()
	if method == "FS" {
		if h.c.FSPark > 0 && h.s.Coin(h.c.FSPark) {
			h.s.Park(sim.KIO, "fs", detail)
		}
	} else {
		h.s.Park(sim.KCall, method, detail)
	}
	h.mu.Lock()
	h.inflight--
	h.mu.Unlock()
	if fail {
		h.mu.Lock()
		h.faults["error:"+method]++
		h.mu.Unlock()
		if method == "FS" {
			return &fs.PathError{Op: "read", Path: detail, Err: errors.New("injected I/O error")}
		}
		return errInjected
	}
	if method != "FS" {
		// like a real registry client, give up when the caller's context is cancelled
		// (the loader cancels its own concurrent spot checks)
		if err := ctx.Err(); err != nil {
			h.mu.Lock()
			h.cnt["registry-call-cancelled-by-caller"]++
			h.mu.Unlock()
			return err
		}
	}
	return nil
}

type simRegistry struct{ h *harness }

func (r simRegistry) Fetch(ctx context.Context, m module.Version) (module.SourceLoc, error) {
	if err := r.h.call(ctx, "Fetch", m.String()); err != nil {
		return module.SourceLoc{}, err
	}
	d := r.h.u.mods[m]
	if d == nil {
		return module.SourceLoc{}, fmt.Errorf("module %v: %w", m, errNotFound)
	}
	return module.SourceLoc{FS: parkFS{r.h, d.files, m.String()}, Dir: "."}, nil
}

func (r simRegistry) ModFile(ctx context.Context, m module.Version) (*modfile.File, error) {
	if err := r.h.call(ctx, "ModFile", m.String()); err != nil {
		return nil, err
	}
	d := r.h.u.mods[m]
	if d == nil {
		return nil, fmt.Errorf("module %v: %w", m, errNotFound)
	}
	return d.mf, nil
}

func (r simRegistry) ModuleVersions(ctx context.Context, mpath string) ([]string, error) {
	if err := r.h.call(ctx, "ModuleVersions", mpath); err != nil {
		return nil, err
	}
	var out []string
	if strings.Contains(mpath, "@") {
		out = append(out, r.h.u.versions[mpath]...)
	} else {
		var ps []string
		for p := range r.h.u.versions {
			if strings.HasPrefix(p, mpath+"@") {
				ps = append(ps, p)
			}
		}
		sort.Strings(ps)
		for _, p := range ps {
			out = append(out, r.h.u.versions[p]...)
		}
	}
	if r.h.c.Shuffle && !r.h.quiet && len(out) > 1 {
		// a configuration, not a fault: listing order is not part of the outcome
		rr := sim.NewRand(sim.Mix(r.h.c.Sched.Seed, uint64(len(mpath))*31+uint64(len(out))))
		sim.Shuffle(rr, out)
	}
	return out, nil
}

// parkFS is an in-memory file system whose operations are simulator seams.
type parkFS struct {
	h    *harness
	fsys fstest.MapFS
	name string
}

func (p parkFS) Open(name string) (fs.File, error) {
	if err := p.h.call(p.h.ctx, "FS", p.name+":"+name); err != nil {
		return nil, err
	}
	return p.fsys.Open(name)
}

func (p parkFS) ReadDir(name string) ([]fs.DirEntry, error) {
	if err := p.h.call(p.h.ctx, "FS", p.name+":"+name+"/"); err != nil {
		return nil, err
	}
	return p.fsys.ReadDir(name)
}

func (p parkFS) ReadFile(name string) ([]byte, error) {
	if err := p.h.call(p.h.ctx, "FS", p.name+":"+name); err != nil {
		return nil, err
	}
	return p.fsys.ReadFile(name)
}

func (p parkFS) Stat(name string) (fs.FileInfo, error) {
	if err := p.h.call(p.h.ctx, "FS", p.name+":"+name+"?"); err != nil {
		return nil, err
	}
	return p.fsys.Stat(name)
}

// ---------- the real registry stack (Stack == "cache") ----------

// parkRT is the simulated wire: every request is a scheduling point, the
// response is produced by the in-process OCI server, and a request whose
// context has been cancelled meanwhile fails like a real one.
type parkRT struct {
	h       *harness
	handler http.Handler
}

func (rt parkRT) RoundTrip(req *http.Request) (*http.Response, error) {
	if err := rt.h.call(req.Context(), "HTTP", req.Method+" "+req.URL.Path); err != nil {
		return nil, err
	}
	rec := httptest.NewRecorder()
	rt.handler.ServeHTTP(rec, req)
	resp := rec.Result()
	resp.Request = req
	return resp, nil
}

type memFile struct {
	name string
	data []byte
}

type memFileIO struct{}

func (memFileIO) Path(f memFile) string                { return f.name }
func (memFileIO) Lstat(f memFile) (os.FileInfo, error) { return memFileInfo{f}, nil }
func (memFileIO) Open(f memFile) (io.ReadCloser, error) {
	return io.NopCloser(bytes.NewReader(f.data)), nil
}

type memFileInfo struct{ f memFile }

func (fi memFileInfo) Name() string       { return filepath.Base(fi.f.name) }
func (fi memFileInfo) Size() int64        { return int64(len(fi.f.data)) }
func (fi memFileInfo) Mode() os.FileMode  { return 0o644 }
func (fi memFileInfo) ModTime() time.Time { return time.Time{} }
func (fi memFileInfo) IsDir() bool        { return false }
func (fi memFileInfo) Sys() any           { return nil }

var cacheScratch = func() string {
	for _, d := range []string{"/dev/shm", os.TempDir()} {
		if fi, err := os.Stat(d); err == nil && fi.IsDir() {
			if p, err := os.MkdirTemp(d, "cuesim-c17-"); err == nil {
				return p
			}
		}
	}
	panic("no scratch directory")
}()

var cacheRuns int

// newCacheStack uploads the universe into a fresh in-memory OCI registry and
// returns a modcache.Cache over it, on a fresh cache directory.
func newCacheStack(h *harness, c *Case) (modload.Registry, func(), error) {
	// (modregistrytest.Upload pushes modules in dependency order and does not
	// terminate on cyclic requirements, which generated universes have.)
	mem := ocimem.New()
	direct := modregistry.NewClient(mem)
	var mvs []module.Version
	for mv := range h.u.mods {
		mvs = append(mvs, mv)
	}
	module.Sort(mvs)
	for _, mv := range mvs {
		var files []memFile
		for name, f := range h.u.mods[mv].files {
			files = append(files, memFile{name, f.Data})
		}
		sort.Slice(files, func(i, j int) bool { return files[i].name < files[j].name })
		var zip bytes.Buffer
		if err := modzip.Create(&zip, mv, files, memFileIO{}); err != nil {
			return nil, nil, fmt.Errorf("zip %v: %v", mv, err)
		}
		if err := direct.PutModule(context.Background(), mv, bytes.NewReader(zip.Bytes()), int64(zip.Len())); err != nil {
			return nil, nil, fmt.Errorf("put %v: %v", mv, err)
		}
	}
	cl, err := ociclient.New("registry.test", &ociclient.Options{Transport: parkRT{h, ociserver.New(mem, nil)}, Insecure: true})
	if err != nil {
		return nil, nil, err
	}
	cacheRuns++
	dir := filepath.Join(cacheScratch, fmt.Sprintf("run%d", cacheRuns))
	os.MkdirAll(dir, 0o777)
	cache, err := modcache.New(modregistry.NewClient(cl), dir)
	if err != nil {
		return nil, nil, err
	}
	return cache, func() { modcache.RemoveAll(dir) }, nil
}

// ---------- execution ----------

// canonFile renders the parts of a module file the property is about.
func canonFile(f *modfile.File) string {
	if f == nil {
		return "<nil>"
	}
	var ds []string
	for p, d := range f.Deps {
		s := p + " " + d.Version
		if d.Default {
			s += " default"
		}
		ds = append(ds, s)
	}
	sort.Strings(ds)
	return f.QualifiedModule() + " {" + strings.Join(ds, "; ") + "}"
}

type tidyOutcome struct {
	err   error
	canon string
	text  []byte
	deps  map[string]string // module path → listed version
	defs  map[string]bool   // module path → listed with default: true
}

func (o tidyOutcome) String() string {
	if o.err != nil {
		return "error: " + strings.ReplaceAll(o.err.Error(), "\n", " ")
	}
	return o.canon
}

func runTidy(h *harness, mainFS fstest.MapFS) tidyOutcome {
	var reg modload.Registry = simRegistry{h}
	if h.reg != nil {
		reg = h.reg
	}
	res, err := modload.Tidy(h.ctx, parkFS{h, mainFS, "main"}, ".", reg, nil)
	if err != nil {
		return tidyOutcome{err: err}
	}
	text, err := modfile.Format(res.Module)
	if err != nil {
		return tidyOutcome{err: fmt.Errorf("cannot format tidied module file: %v", err)}
	}
	deps, defs := map[string]string{}, map[string]bool{}
	for p, d := range res.Module.Deps {
		deps[p] = d.Version
		defs[p] = d.Default
	}
	return tidyOutcome{canon: canonFile(res.Module), text: text, deps: deps, defs: defs}
}

var errNotFound = modregistry.ErrNotFound

var (
	refMu    sync.Mutex
	refCache = map[string]tidyOutcome{}
)

// reference computes the outcome under the canonical schedule (callbacks
// answered in program order, no fault), once per universe.
func reference(t *testing.T, c *Case) tidyOutcome { return referenceFrom(t, c, c.MainDeps) }

// renamed is the same universe with the package directories p0..p3 renamed p3..p0 everywhere
// (directories of every module version, every import). Directory names mean nothing: module
// paths, versions, requirements and which package imports which stay as they are. What
// changes is the order in which packages are visited wherever the loader sorts by import path.
func renamed(c *Case) *Case {
	d := c.clone()
	ren := func(p string) string {
		// the last path element, before an optional @major
		at := strings.LastIndex(p, "@")
		tail := ""
		if at >= 0 {
			p, tail = p[:at], p[at:]
		}
		i := strings.LastIndex(p, "/") + 1
		if e := p[i:]; len(e) == 2 && e[0] == 'p' && e[1] >= '0' && e[1] <= '3' {
			p = p[:i] + "p" + string('0'+('3'-e[1]))
		}
		return p + tail
	}
	fix := func(pk *Pkg, isMain bool) {
		if !isMain {
			pk.Dir = ren(pk.Dir)
		}
		for i := range pk.Imports {
			pk.Imports[i] = ren(pk.Imports[i])
		}
		if pk.Extra != "" {
			pk.Extra = ren(pk.Extra)
		}
		if pk.Up != "" {
			pk.Up = ren(pk.Up)
		}
	}
	for i := range d.Mods {
		for j := range d.Mods[i].Pkgs {
			fix(&d.Mods[i].Pkgs[j], false)
		}
	}
	for j := range d.MainPkgs {
		fix(&d.MainPkgs[j], true)
	}
	return d
}

func referenceFrom(t *testing.T, c *Case, mainDeps []Req) tidyOutcome {
	key, _ := json.Marshal([]any{c.Mods, mainDeps, c.MainPkgs, c.Stack})
	refMu.Lock()
	if o, ok := refCache[string(key)]; ok {
		refMu.Unlock()
		return o
	}
	refMu.Unlock()
	u, err := buildUniverse(c, mainDeps)
	if err != nil {
		sim.Trouble("%v", err)
	}
	s := sim.NewSched(sim.SchedConfig{Policy: "sequential", MaxSteps: 100000, YieldPark: 0}, false)
	h := &harness{c: &Case{}, s: s, u: u, calls: map[string]int{}, faults: map[string]int{}, cnt: map[string]int{}}
	if c.Stack == "cache" {
		reg, cleanup, err := newCacheStack(h, c)
		if err != nil {
			sim.Trouble("cache stack: %v", err)
		}
		defer cleanup()
		h.reg = reg
	}
	var out tidyOutcome
	sim.RunBubble(t, s, func() {
		h.ctx, h.cancel = context.WithCancel(context.Background())
		s.Go("tidy", 0, func() { out = runTidy(h, u.mainFS) })
	}, nil)
	refMu.Lock()
	if len(refCache) > 5000 {
		refCache = map[string]tidyOutcome{}
	}
	refCache[string(key)] = out
	refMu.Unlock()
	return out
}

// exec executes a case. When it is given a decision vector (replay,
// confirmation, minimisation) and the execution shows no violation, it is
// repeated a few times: the one source of nondeterminism the simulator does not
// own — Go map iteration in spotCheckRoots, which decides which concurrent
// spot check is in flight when the loader cancels them — can make a defect of
// the code under test show in one execution of a tuple and not in the next. On
// a tree where the property holds no execution violates, so repeating cannot
// raise an alarm.
func exec(t *testing.T, ci sim.CaseI, choices []uint32, keepLog bool) *sim.Outcome {
	out := exec1(t, ci, choices, keepLog)
	for i := 0; i < 7 && choices != nil && out.Res.Violation == nil; i++ {
		out = exec1(t, ci, choices, keepLog)
	}
	return out
}

func exec1(t *testing.T, ci sim.CaseI, choices []uint32, keepLog bool) *sim.Outcome {
	c := ci.(*Case)
	old := runtime.GOMAXPROCS(0)
	if c.Procs > 0 {
		runtime.GOMAXPROCS(c.Procs)
		defer runtime.GOMAXPROCS(old)
	}
	ref := reference(t, c)
	u, err := buildUniverse(c, c.MainDeps)
	if err != nil {
		sim.Trouble("%v", err)
	}
	cfg := c.Sched
	cfg.Choices = choices
	if cfg.MaxSteps == 0 {
		cfg.MaxSteps = 60000
	}
	s := sim.NewSched(cfg, keepLog)
	h := &harness{c: c, s: s, u: u, calls: map[string]int{}, faults: map[string]int{}, cnt: map[string]int{}}
	if c.Stack == "cache" {
		reg, cleanup, err := newCacheStack(h, c)
		if err != nil {
			sim.Trouble("cache stack: %v", err)
		}
		defer cleanup()
		h.reg = reg
		h.cnt["runs-over-the-real-cache-stack"]++
	}
	var first, second tidyOutcome
	var checkErr error
	var didSecond bool
	var panicked any
	res := sim.RunBubble(t, s, func() {
		h.ctx, h.cancel = context.WithCancel(context.Background())
		s.Go("tidy", 0, func() {
			defer func() {
				if p := recover(); p != nil {
					panicked = p
				}
			}()
			first = runTidy(h, u.mainFS)
			s.Logf("tidy -> %s", first)
			if first.err != nil {
				return
			}
			// fixpoint: tidy its own output, and ask the tidy check about it, under the same schedule
			fs2 := fstest.MapFS{}
			for k, v := range u.mainFS {
				fs2[k] = v
			}
			fs2["cue.mod/module.cue"] = &fstest.MapFile{Data: first.text}
			second = runTidy(h, fs2)
			s.Logf("tidy(tidy) -> %s", second)
			var reg modload.Registry = simRegistry{h}
			if h.reg != nil {
				reg = h.reg
			}
			checkErr = modload.CheckTidy(h.ctx, parkFS{h, fs2, "main"}, ".", reg, nil)
			s.Logf("checktidy -> %v", checkErr != nil)
			didSecond = true
		})
	}, nil)
	out := &sim.Outcome{Res: res, Faults: h.faults, Counters: h.cnt}
	out.NonTrivial = h.maxFly >= 2
	h.cnt[fmt.Sprintf("max-calls-in-flight-%d", min(h.maxFly, 8))]++
	if ref.err != nil {
		h.cnt["universes-whose-tidy-is-an-error"]++
	} else {
		h.cnt["universes-whose-tidy-succeeds"]++
	}
	nf := 0
	for _, n := range h.faults {
		nf += n
	}
	if res.Violation == nil && panicked != nil {
		out.Res.Violation = &sim.Violation{Class: "panic", Msg: fmt.Sprint(panicked), Step: res.Steps}
	}
	if out.Res.Violation == nil {
		var v *sim.Violation
		switch {
		case nf == 0:
			// P5: the outcome is the one of the canonical schedule
			if (first.err != nil) != (ref.err != nil) || (first.err == nil && first.canon != ref.canon) {
				v = &sim.Violation{Class: "schedule-dependent-result", Msg: fmt.Sprintf("tidy under this schedule: %s\ncanonical schedule:       %s", first, ref)}
			} else if rn := referenceFrom(t, renamed(c), c.MainDeps); (rn.err != nil) != (ref.err != nil) || (rn.err == nil && rn.canon != ref.canon) {
				// the same universe with its package directories renamed: names mean nothing
				v = &sim.Violation{Class: "result-depends-on-package-names", Msg: fmt.Sprintf("tidy: %s\nwith the package directories p0..p3 renamed p3..p0 everywhere: %s", ref, rn)}
			} else if v = consistent(u, first); v != nil {
				// P3 reported
			} else if v = resolves(c, u, first, h.cnt); v != nil {
				// P1/P2 reported
			} else if didSecond {
				// P4: fixpoint
				if second.err != nil {
					v = &sim.Violation{Class: "tidy-of-tidy-fails", Msg: fmt.Sprintf("tidy succeeded (%s) but tidying its output fails: %v", first, second.err)}
				} else if second.canon != first.canon {
					v = &sim.Violation{Class: "not-a-fixpoint", Msg: fmt.Sprintf("tidy: %s\ntidy of that: %s", first, second)}
				} else if checkErr != nil {
					v = &sim.Violation{Class: "check-rejects-tidy-output", Msg: fmt.Sprintf("tidy: %s; CheckTidy on it: %v", first, checkErr)}
				}
				h.cnt["fixpoints-checked"]++
			}
		default:
			// P6: with a fault the outcome is an error, or the fault-free result, or — a transient
			// registry failure may legitimately steer tidy to another valid answer (an older but
			// sufficient version, an implied instead of an explicit default major version) — a result
			// that is itself a fixpoint accepted by the tidy check. Never a file tidy itself rejects.
			if first.err == nil && (ref.err != nil || first.canon != ref.canon) {
				if !didSecond || second.err != nil || second.canon != first.canon || checkErr != nil {
					v = &sim.Violation{Class: "fault-changes-result", Msg: fmt.Sprintf("with faults %v tidy returned %s, which is neither the fault-free result (%s) nor a fixpoint (tidy of it: %s; check: %v)", h.faults, first, ref, second, checkErr)}
				} else {
					h.cnt["fault-steered-to-another-valid-result"]++
				}
			}
		}
		if v != nil {
			v.Step = res.Steps
			out.Res.Violation = v
		}
	}
	if out.Res.Violation != nil {
		out.Key = out.Res.Violation.Class
	}
	out.Final = first.String()
	return out
}

// consistent is the part of an independent resolution that needs no knowledge
// of import resolution rules (P3): in a tidied module file no listed version
// is lower than what another listed dependency's own module file requires,
// i.e. the listed versions are the ones minimal version selection selects.
func consistent(u *universe, o tidyOutcome) *sim.Violation {
	if o.err != nil {
		return nil
	}
	var paths []string
	for p := range o.deps {
		paths = append(paths, p)
	}
	sort.Strings(paths)
	for _, p := range paths {
		mv, err := module.NewVersion(p, o.deps[p])
		if err != nil {
			continue
		}
		d := u.mods[mv]
		if d == nil {
			return &sim.Violation{Class: "lists-unknown-version", Msg: fmt.Sprintf("the tidied module file lists %v, which the registry does not have", mv)}
		}
		for _, r := range d.mf.DepVersions() {
			have, ok := o.deps[r.Path()]
			if !ok {
				continue
			}
			hv, err := module.NewVersion(r.Path(), have)
			if err == nil && hv.Compare(r) < 0 {
				return &sim.Violation{Class: "listed-version-below-requirement", Msg: fmt.Sprintf("the tidied module file lists %v, but the listed %v requires %v: %s", hv, mv, r, o)}
			}
		}
	}
	return nil
}

// resolves is an independent resolution of the imports over the tidied module
// file (P1, P2), deliberately restricted to what can be decided without
// re-implementing the loader: an import of a main-module package, or an import
// with an explicit major version of a package reached that way, must be
// provided by exactly one listed module at its listed version (none: tidy
// wrote a file that does not resolve it; two: tidy accepted an ambiguous
// import); and, when every import of the closure could be decided, every
// listed module provides at least one package of the closure (no unused entry).
func resolves(c *Case, u *universe, o tidyOutcome, cnt map[string]int) *sim.Violation {
	if o.err != nil {
		return nil
	}
	type listedMod struct {
		path, base, major string
		d                 *modData
	}
	var listed []listedMod
	majors := map[string][]string{} // base → listed majors
	for p, v := range o.deps {
		mv, err := module.NewVersion(p, v)
		if err != nil || u.mods[mv] == nil {
			return nil // P3 reports unknown versions
		}
		i := strings.LastIndex(p, "@")
		listed = append(listed, listedMod{p, p[:i], p[i+1:], u.mods[mv]})
		majors[p[:i]] = append(majors[p[:i]], p[i+1:])
	}
	sort.Slice(listed, func(i, j int) bool { return listed[i].path < listed[j].path })
	mainDefault := func(base string) string {
		for _, m := range listed {
			if m.base == base && o.defs[m.path] {
				return m.major
			}
		}
		if len(majors[base]) == 1 {
			return majors[base][0]
		}
		return ""
	}
	hasPkg := func(d *modData, dir string) bool {
		prefix := ""
		if dir != "" {
			prefix = dir + "/"
		}
		_, ok := d.files[prefix+"x.cue"]
		return ok
	}
	// providers of an import among the listed modules; ok=false: not decidable here
	providers := func(imp string, fromMain bool) (ps []listedMod, ok bool) {
		path, major := imp, ""
		if i := strings.LastIndex(imp, "@"); i >= 0 {
			path, major = imp[:i], imp[i+1:]
		}
		if !strings.Contains(strings.SplitN(path, "/", 2)[0], ".") {
			return nil, false // standard library
		}
		if path == "main.test" || strings.HasPrefix(path, "main.test/") {
			return nil, false
		}
		if major == "" && !fromMain {
			return nil, false // resolved with the importing module's own defaults: not decided here
		}
		for _, m := range listed {
			if path != m.base && !strings.HasPrefix(path, m.base+"/") {
				continue
			}
			want := major
			if want == "" {
				want = mainDefault(m.base)
			}
			if want == "" || want != m.major {
				continue
			}
			if hasPkg(m.d, strings.TrimPrefix(strings.TrimPrefix(path, m.base), "/")) {
				ps = append(ps, m)
			}
		}
		return ps, true
	}
	type item struct {
		imp      string
		fromMain bool
		by       string
	}
	var todo []item
	for _, p := range c.MainPkgs {
		for _, imp := range p.Imports {
			todo = append(todo, item{imp, true, "main/" + p.Dir})
		}
		if p.Tool && p.Extra != "" {
			todo = append(todo, item{p.Extra, true, "main/" + p.Dir + " (_tool)"})
		}
	}
	used := map[string]bool{}
	seen := map[string]bool{}
	complete := true
	for len(todo) > 0 {
		it := todo[0]
		todo = todo[1:]
		key := fmt.Sprint(it.imp, it.fromMain)
		if seen[key] {
			continue
		}
		seen[key] = true
		ps, ok := providers(it.imp, it.fromMain)
		if !ok {
			path := it.imp
			if i := strings.LastIndex(path, "@"); i >= 0 {
				path = path[:i]
			}
			if strings.Contains(strings.SplitN(path, "/", 2)[0], ".") && !strings.HasPrefix(path, "main.test") {
				complete = false
			}
			continue
		}
		switch len(ps) {
		case 0:
			return &sim.Violation{Class: "import-without-listed-provider", Msg: fmt.Sprintf("tidy succeeded, but import %q (by %s) is provided by no module listed in the result %s", it.imp, it.by, o)}
		case 1:
		default:
			return &sim.Violation{Class: "ambiguous-import-accepted", Msg: fmt.Sprintf("tidy succeeded, but import %q (by %s) is provided by both %s and %s in the result %s", it.imp, it.by, ps[0].path, ps[1].path, o)}
		}
		m := ps[0]
		used[m.path] = true
		// follow the imports of the providing package
		path := it.imp
		if i := strings.LastIndex(path, "@"); i >= 0 {
			path = path[:i]
		}
		dir := strings.TrimPrefix(strings.TrimPrefix(path, m.base), "/")
		for _, mvSpec := range c.Mods {
			if mvSpec.Path == m.path && mvSpec.Version == o.deps[m.path] {
				for _, pk := range mvSpec.Pkgs {
					if pk.Dir == dir {
						for _, imp := range pk.Imports {
							todo = append(todo, item{imp, false, m.path + "/" + dir})
						}
					}
					// files of the same package at the module root belong to it too
					if pk.Up != "" && pkgName(pk.Dir, "root") == pkgName(dir, "root") {
						todo = append(todo, item{pk.Up, false, m.path + "/" + dir + " (file at the module root)"})
					}
				}
				break
			}
		}
	}
	cnt["independent-resolutions-checked"]++
	if complete {
		cnt["independent-resolutions-with-complete-closure"]++
		for _, m := range listed {
			if !used[m.path] {
				return &sim.Violation{Class: "unused-listed-module", Msg: fmt.Sprintf("the tidied module file lists %s, which provides no package of the import closure: %s", m.path, o)}
			}
		}
	}
	return nil
}

var Prop = &sim.Prop{
	ID:    "C17",
	New:   func() sim.CaseI { return &Case{} },
	Gen:   gen,
	Exec:  exec,
	Rule:  "case = generated universe (1-6 module paths x 1-3 versions incl. pre-releases, nested module paths that can both provide a package, second major versions, packages that exist only from a later version on, stdlib and missing imports, @ignore() and _tool files, explicit- and default-major imports) x main module with stale/partial/excessive/empty dependency list x scheduler policy and knobs (loader queue width via GOMAXPROCS 1/2/4/32, park probability of file-system operations and of the yields inside flag propagation, shuffled version listing) x fault plan (n-th registry call fails, an FS read fails, context cancelled at the n-th registry call), all from the run seed; non-trivial = at least two registry/FS calls were in flight at the same time; distinct = distinct hash of the full event log",
	Real:  []string{"internal/mod/modload (Tidy, CheckTidy, resolveDependencies, updateRoots, tidyRoots, queryImport)", "internal/mod/modpkgload", "internal/mod/modrequirements", "internal/mod/mvs.Graph", "internal/mod/modimports", "internal/par (Queue, Cache)", "mod/modfile (Parse, Format)", "cue/parser (import scanning)"},
	Stubs: []string{"registry: in-memory modload.Registry whose three methods park in the simulator", "file systems: in-memory fs.FS for the main module and every module version, operations may park or fail"},
}

func TestWorker(t *testing.T) { sim.WorkerMain(t, Prop) }

func TestMain(m *testing.M) {
	code := m.Run()
	os.RemoveAll(cacheScratch)
	os.Exit(code)
}
