// Package c14 decides property C14: module version selection is minimal,
// sufficient, and independent of listing order and of the schedule of the
// concurrent graph traversal.
//
// Real code: internal/mod/mvs, internal/par.Work/Queue/ErrCache,
// mod/module.Versions (+ internal/mod/semver through Max),
// internal/mod/modrequirements (Requirements.Graph / readModGraph).
// Stub: the requirement graph (an in-memory Reqs / Registry whose callbacks
// park in the simulator).
package c14

import (
	"context"
	"errors"
	"fmt"
	"runtime"
	"sort"
	"strconv"
	"strings"
	"testing"

	"cuelang.org/go/internal/mod/modrequirements"
	"cuelang.org/go/internal/mod/mvs"
	"cuelang.org/go/mod/modfile"
	"cuelang.org/go/mod/module"
	"cuelang.org/go/verifsim/sim"
)

// ---------- case ----------

type Req struct {
	P string `json:"p"`
	V string `json:"v"`
}

type Node struct {
	P    string `json:"p"`
	V    string `json:"v"`
	Reqs []Req  `json:"reqs"`
}

type Case struct {
	Sched   sim.SchedConfig `json:"sched"`
	Procs   int             `json:"gomaxprocs"`
	Op      string          `json:"op"` // buildlist | req | upgradeall | upgrade | downgrade | graph
	Main    []Req           `json:"main"`
	Nodes   []Node          `json:"nodes"`
	Base    []string        `json:"base,omitempty"`  // req
	Args    []Req           `json:"args,omitempty"`  // upgrade / downgrade
	MaxPark float64         `json:"max_park,omitempty"` // probability that the caller-supplied Max callback is a scheduling point
	Fail    []string        `json:"fail,omitempty"`  // path@version whose callback returns an error
	Stall   []string        `json:"stall,omitempty"` // callbacks parked until nothing else can run
	FailUpg []string        `json:"fail_upgrade,omitempty"`
	// Arena: the requirement lists handed to the code under test are adjacent parts of one
	// array, each with spare capacity that overlaps its neighbours (Reqs: "the caller must not
	// modify the returned list" — an append or insert that stays within capacity does).
	Arena bool `json:"arena,omitempty"`
}

func (c *Case) SchedCfg() *sim.SchedConfig { return &c.Sched }

func (c *Case) Summary() any {
	return map[string]any{"op": c.Op, "policy": c.Sched.Policy, "nodes": len(c.Nodes), "main": c.Main, "graph": c.Nodes,
		"args": c.Args, "base": c.Base, "fail": c.Fail, "stall": c.Stall, "gomaxprocs": c.Procs}
}

func (c *Case) clone() *Case {
	d := *c
	d.Main = append([]Req{}, c.Main...)
	d.Nodes = make([]Node, len(c.Nodes))
	for i, n := range c.Nodes {
		d.Nodes[i] = Node{n.P, n.V, append([]Req{}, n.Reqs...)}
	}
	d.Base = append([]string{}, c.Base...)
	d.Args = append([]Req{}, c.Args...)
	d.Fail = append([]string{}, c.Fail...)
	d.Stall = append([]string{}, c.Stall...)
	d.FailUpg = append([]string{}, c.FailUpg...)
	return &d
}

func (c *Case) Shrinks() []sim.CaseI {
	var out []sim.CaseI
	// drop faults
	for i := range c.Fail {
		d := c.clone()
		d.Fail = append(d.Fail[:i], d.Fail[i+1:]...)
		out = append(out, d)
	}
	if c.MaxPark > 0 {
		d := c.clone()
		d.MaxPark = 0
		out = append(out, d)
	}
	for i := range c.Stall {
		d := c.clone()
		d.Stall = append(d.Stall[:i], d.Stall[i+1:]...)
		out = append(out, d)
	}
	// drop a node (and every requirement on it)
	for i := range c.Nodes {
		d := c.clone()
		n := d.Nodes[i]
		d.Nodes = append(d.Nodes[:i], d.Nodes[i+1:]...)
		strip := func(rs []Req) []Req {
			var o []Req
			for _, r := range rs {
				if r.P != n.P || r.V != n.V {
					o = append(o, r)
				}
			}
			return o
		}
		d.Main = strip(d.Main)
		for j := range d.Nodes {
			d.Nodes[j].Reqs = strip(d.Nodes[j].Reqs)
		}
		d.Args = strip(d.Args)
		if len(d.Main) > 0 {
			out = append(out, d)
		}
	}
	// drop one requirement edge
	for i := range c.Main {
		if len(c.Main) > 1 {
			d := c.clone()
			d.Main = append(d.Main[:i], d.Main[i+1:]...)
			out = append(out, d)
		}
	}
	for i, n := range c.Nodes {
		for j := range n.Reqs {
			d := c.clone()
			d.Nodes[i].Reqs = append(d.Nodes[i].Reqs[:j], d.Nodes[i].Reqs[j+1:]...)
			out = append(out, d)
		}
	}
	for i := range c.Args {
		if len(c.Args) > 1 {
			d := c.clone()
			d.Args = append(d.Args[:i], d.Args[i+1:]...)
			out = append(out, d)
		}
	}
	return out
}

// ---------- generator ----------

var versionPool = map[string][]string{
	"v0": {"v0.1.0", "v0.1.1-alpha", "v0.1.1-alpha.1", "v0.1.1-alpha.beta", "v0.1.1-beta", "v0.1.1-beta.2", "v0.1.1-beta.11",
		"v0.1.1-rc.1", "v0.1.1", "v0.2.0", "v0.9.0", "v0.10.0", "v0.10.1-0", "v0.10.1-0.a", "v0.10.1-a.0", "v0.10.1-1", "v0.10.1-a-b", "v0.10.1-a",
		// identifiers that are alphanumeric as a whole but end in digits (lexical, not "natural", order), hyphens inside identifiers
		"v0.3.0-rc9", "v0.3.0-rc10", "v0.3.0-rc1b", "v0.3.0-2024-9", "v0.3.0-2024-10", "v0.3.0-9", "v0.3.0-10", "v0.3.0-9a", "v0.3.0"},
	"v1": {"v1.0.0-rc.1", "v1.0.0", "v1.2.0", "v1.2.1-pre.9", "v1.2.1-pre.10", "v1.2.1-pre9", "v1.2.1-pre10", "v1.2.1", "v1.10.0", "v1.9.9",
		// numeric fields beyond 64 bits (timestamps in microseconds, say): SemVer has no upper bound
		"v1.18446744073709551616.0", "v1.18446744073709551617.0", "v1.3.0-18446744073709551616", "v1.3.0-18446744073709551618", "v1.3.0-99999999999999999999",
		"v1.3.0"},
	"v2": {"v2.0.0", "v2.0.1-0", "v2.0.1", "v2.1.0-x.y", "v2.1.0-x", "v2.1.0", "v2.1.0-x-1", "v2.1.0-x-10", "v2.1.0-x-2"},
}

const mainPath = "main.test@v0"

func gen(seed uint64, tier string, idx int) sim.CaseI {
	wr := sim.NewRand(sim.Mix(seed, 1)) // workload
	kr := sim.NewRand(sim.Mix(seed, 2)) // knobs + fault plan
	c := &Case{}
	maxPaths, maxVers := 8, 4
	if tier == "thorough" && wr.Bool(0.3) {
		maxPaths, maxVers = 12, 5
	}
	np := wr.Range(2, maxPaths)
	type pv struct{ p, v string }
	var all []pv
	byPath := map[string][]string{}
	var paths []string
	for i := 0; i < np; i++ {
		maj := "v0"
		switch wr.Intn(6) {
		case 0:
			maj = "v1"
		case 1:
			maj = "v2"
		}
		p := fmt.Sprintf("ex.com/m%d@%s", i, maj)
		paths = append(paths, p)
		pool := versionPool[maj]
		nv := wr.Range(1, min(maxVers, len(pool)))
		for _, k := range wr.Perm(len(pool))[:nv] {
			byPath[p] = append(byPath[p], pool[k])
			all = append(all, pv{p, pool[k]})
		}
	}
	shape := wr.Intn(5)
	pick := func(from string) Req {
		for {
			var p string
			switch {
			case shape == 0 && wr.Bool(0.7): // chains: prefer the next path
				i, _ := strconv.Atoi(strings.TrimSuffix(strings.TrimPrefix(strings.Split(from, "@")[0], "ex.com/m"), ""))
				p = paths[(i+1)%len(paths)]
			default:
				p = paths[wr.Intn(len(paths))]
			}
			if p == from && len(paths) > 1 {
				continue
			}
			vs := byPath[p]
			return Req{p, vs[wr.Intn(len(vs))]}
		}
	}
	for _, n := range all {
		k := wr.Intn(4)
		if shape == 1 {
			k = wr.Range(1, 4) // dense: many diamonds and cycles
		}
		node := Node{P: n.p, V: n.v}
		for j := 0; j < k; j++ {
			node.Reqs = append(node.Reqs, pick(n.p))
		}
		if wr.Bool(0.1) && len(node.Reqs) > 0 { // duplicate entry
			node.Reqs = append(node.Reqs, node.Reqs[0])
		}
		c.Nodes = append(c.Nodes, node)
	}
	sim.Shuffle(wr, c.Nodes)
	nm := wr.Range(1, 4)
	for j := 0; j < nm; j++ {
		c.Main = append(c.Main, pick(mainPath))
	}
	switch wr.Intn(10) {
	case 0, 1, 2, 3:
		c.Op = "buildlist"
	case 4:
		c.Op = "req"
		// precondition of Req: base paths are in the build list
		_, sel := build(c).fixpoint(nil)
		for _, p := range paths {
			if _, ok := sel[p]; ok && wr.Bool(0.25) {
				c.Base = append(c.Base, p)
			}
		}
	case 5:
		c.Op = "upgradeall"
	case 6:
		c.Op = "upgrade"
		for j := wr.Range(1, 2); j > 0; j-- {
			c.Args = append(c.Args, pick(mainPath))
		}
	case 7:
		c.Op = "downgrade"
		for j := wr.Range(1, 2); j > 0; j-- {
			c.Args = append(c.Args, pick(mainPath))
		}
	default:
		c.Op = "graph"
	}
	// knobs
	c.Procs = []int{1, 2, 4, 32}[kr.Intn(4)]
	c.MaxPark = []float64{0, 0.05, 0.2, 0.5}[kr.Intn(4)]
	c.Arena = kr.Bool(0.5)
	c.Sched = sim.SchedConfig{Seed: sim.Mix(seed, 3)}
	switch kr.Intn(10) {
	case 0:
		c.Sched.Policy = "sequential"
	case 1, 2, 3:
		c.Sched.Policy = "latency"
		c.Sched.LatencyMs = map[sim.Kind][2]int{sim.KCall: {1, 1 + kr.Intn(200)}, sim.KStart: {0, 1}, sim.KWoken: {0, kr.Intn(3)}, sim.KLock: {0, 1}}
		if kr.Bool(0.5) && len(all) > 0 { // one slow module version: "the old version answers last"
			n := all[kr.Intn(len(all))]
			c.Sched.SlowTask = n.p + "@" // all versions of one path are slow
			if kr.Bool(0.5) {
				c.Sched.SlowTask = module.MustNewVersion(n.p, n.v).String()
			}
			c.Sched.SlowFactor = 5 + kr.Intn(50)
		}
	case 4, 5:
		c.Sched.Policy = "pct"
		c.Sched.PCTDepth = kr.Range(1, 3)
		c.Sched.PCTSpan = 20 + 4*len(all)
	default:
		c.Sched.Policy = "uniform"
		if kr.Bool(0.3) {
			c.Sched.Sticky = 0.5
		}
	}
	// fault plan
	if c.Op != "downgrade" && c.Op != "req" && kr.Bool(0.25) && len(all) > 0 {
		n := all[kr.Intn(len(all))]
		c.Fail = append(c.Fail, module.MustNewVersion(n.p, n.v).String())
	}
	if kr.Bool(0.3) && len(all) > 0 {
		for j := kr.Range(1, 2); j > 0; j-- {
			n := all[kr.Intn(len(all))]
			c.Stall = append(c.Stall, module.MustNewVersion(n.p, n.v).String())
		}
	}
	if c.Op == "upgradeall" && kr.Bool(0.15) {
		n := all[kr.Intn(len(all))]
		c.FailUpg = append(c.FailUpg, module.MustNewVersion(n.p, n.v).String())
	}
	return c
}

// ---------- independent SemVer 2.0 comparator (oracle) ----------

type sv struct {
	num [3]string // digits; SemVer puts no bound on numeric fields, so they are never converted
	pre []string
}

// cmpDigits compares two numbers written without leading zeros.
func cmpDigits(a, b string) int {
	if len(a) != len(b) {
		if len(a) < len(b) {
			return -1
		}
		return 1
	}
	return strings.Compare(a, b)
}

func parseSV(v string) sv {
	v = strings.TrimPrefix(v, "v")
	if i := strings.IndexByte(v, '+'); i >= 0 {
		v = v[:i]
	}
	var s sv
	core := v
	if i := strings.IndexByte(v, '-'); i >= 0 {
		core = v[:i]
		s.pre = strings.Split(v[i+1:], ".")
	}
	for i, f := range strings.Split(core, ".") {
		if i < 3 {
			s.num[i] = f
		}
	}
	return s
}

func isNum(s string) bool {
	if s == "" {
		return false
	}
	for _, c := range s {
		if c < '0' || c > '9' {
			return false
		}
	}
	return true
}

// cmpSV: SemVer 2.0 §11 precedence. "" (main module) is above everything, "none" below everything.
func cmpSV(a, b string) int {
	if a == b {
		return 0
	}
	switch {
	case a == "":
		return 1
	case b == "":
		return -1
	case a == "none":
		return -1
	case b == "none":
		return 1
	}
	x, y := parseSV(a), parseSV(b)
	for i := 0; i < 3; i++ {
		if c := cmpDigits(x.num[i], y.num[i]); c != 0 {
			return c
		}
	}
	if len(x.pre) == 0 && len(y.pre) == 0 {
		return 0
	}
	if len(x.pre) == 0 {
		return 1
	}
	if len(y.pre) == 0 {
		return -1
	}
	for i := 0; i < len(x.pre) && i < len(y.pre); i++ {
		p, q := x.pre[i], y.pre[i]
		if p == q {
			continue
		}
		pn, qn := isNum(p), isNum(q)
		switch {
		case pn && qn:
			return cmpDigits(p, q)
		case pn:
			return -1
		case qn:
			return 1
		case p < q:
			return -1
		default:
			return 1
		}
	}
	switch {
	case len(x.pre) < len(y.pre):
		return -1
	case len(x.pre) > len(y.pre):
		return 1
	}
	return 0
}

// ---------- universe + oracle ----------

type universe struct {
	main   module.Version
	reqs   map[module.Version][]module.Version // what the oracle reads
	hand   map[module.Version][]module.Version // what Required hands out (same contents, own storage)
	byPath map[string][]string
}

// modified reports a requirement list that no longer holds what it held when it was handed out.
func (u *universe) modified() string {
	for m, want := range u.reqs {
		got := u.hand[m]
		if len(got) != len(want) {
			return fmt.Sprintf("%v: length %d, was %d", m, len(got), len(want))
		}
		for i := range want {
			if got[i] != want[i] {
				return fmt.Sprintf("the list of %v now has %v at %d, was %v", m, got[i], i, want[i])
			}
		}
	}
	return ""
}

func mv(p, v string) module.Version { return module.MustNewVersion(p, v) }

func build(c *Case) *universe {
	u := &universe{main: mv(mainPath, ""), reqs: map[module.Version][]module.Version{}, byPath: map[string][]string{}}
	conv := func(rs []Req) []module.Version {
		out := make([]module.Version, 0, len(rs))
		for _, r := range rs {
			out = append(out, mv(r.P, r.V))
		}
		return out
	}
	for _, n := range c.Nodes {
		u.reqs[mv(n.P, n.V)] = conv(n.Reqs)
		u.byPath[n.P] = append(u.byPath[n.P], n.V)
	}
	u.reqs[u.main] = conv(c.Main)
	u.hand = map[module.Version][]module.Version{}
	total := 0
	for _, l := range u.reqs {
		total += len(l)
	}
	arena := make([]module.Version, 0, total)
	place := func(m module.Version) {
		l := u.reqs[m]
		if !c.Arena {
			u.hand[m] = append(make([]module.Version, 0, len(l)), l...)
			return
		}
		lo := len(arena)
		arena = append(arena, l...)
		u.hand[m] = arena[lo:len(arena)] // capacity reaches to the end of the arena
	}
	place(u.main)
	for _, n := range c.Nodes {
		if _, done := u.hand[mv(n.P, n.V)]; !done {
			place(mv(n.P, n.V))
		}
	}
	return u
}

func (u *universe) latest(p string) string {
	best := "none"
	for _, v := range u.byPath[p] {
		if cmpSV(v, best) > 0 {
			best = v
		}
	}
	return best
}

// fixpoint computes the reachable set from main over edges(m), and the
// selected (maximum) version per path. stop, when non-nil, marks nodes whose
// outgoing edges are not followed.
func (u *universe) fixpoint(edges func(m module.Version) []module.Version) (reach map[module.Version]bool, sel map[string]string) {
	if edges == nil {
		edges = func(m module.Version) []module.Version { return u.reqs[m] }
	}
	reach = map[module.Version]bool{u.main: true}
	sel = map[string]string{u.main.Path(): ""}
	todo := []module.Version{u.main}
	for len(todo) > 0 {
		m := todo[len(todo)-1]
		todo = todo[:len(todo)-1]
		for _, r := range edges(m) {
			if cur, ok := sel[r.Path()]; !ok || cmpSV(r.Version(), cur) > 0 {
				sel[r.Path()] = r.Version()
			}
			if !reach[r] {
				reach[r] = true
				todo = append(todo, r)
			}
		}
	}
	return
}

func listOf(main module.Version, sel map[string]string) []string {
	var ps []string
	for p := range sel {
		if p != main.Path() {
			ps = append(ps, p)
		}
	}
	sort.Strings(ps)
	out := []string{main.String()}
	for _, p := range ps {
		out = append(out, mv(p, sel[p]).String())
	}
	return out
}

func strs(l []module.Version) []string {
	out := make([]string, len(l))
	for i, m := range l {
		out[i] = m.String()
	}
	return out
}

// ---------- the stub graph: callbacks that park ----------

type simReqs struct {
	module.Versions
	u        *universe
	s        *sim.Sched
	fail     map[string]bool
	failUpg  map[string]bool
	stall    map[string]bool
	over     map[module.Version][]module.Version // overrides (main's requirements in follow-up checks)
	faults   map[string]int
	counters map[string]int
	inflight int
	maxFly   int
	returned map[module.Version]bool
	nopark   bool
	maxPark  float64
}

func (r *simReqs) call(site string, m module.Version) {
	if r.nopark {
		return
	}
	kind := sim.KCall
	if r.stall[m.String()] {
		kind = sim.KStalled
		r.faults["stall"]++
	}
	r.inflight++
	if r.inflight > r.maxFly {
		r.maxFly = r.inflight
	}
	r.s.Park(kind, site, m.String())
	r.inflight--
}

// Max is a callback of the Reqs interface like Required: the traversal may
// not assume that it is instantaneous, so it is a (probabilistic) scheduling
// point too. The comparison itself is the real module.Versions.Max.
func (r *simReqs) Max(v1, v2 string) string {
	if !r.nopark && r.maxPark > 0 && r.s.Cur() != nil && r.s.Coin(r.maxPark) {
		r.s.Park(sim.KYield, "Max", v1+" "+v2)
	}
	return r.Versions.Max(v1, v2)
}

func (r *simReqs) Required(m module.Version) ([]module.Version, error) {
	r.call("Required", m)
	if r.fail[m.String()] {
		if !r.nopark {
			r.faults["callback-error"]++
		}
		return nil, fmt.Errorf("injected failure for %v", m)
	}
	if l, ok := r.over[m]; ok {
		return l, nil
	}
	l, ok := r.u.hand[m]
	if !ok {
		return nil, fmt.Errorf("unknown module %v", m)
	}
	if r.nopark { // follow-up calls outside the simulator run on free goroutines
		return l, nil
	}
	// reach counter: a lower version's requirements arriving after a higher version's
	for _, v := range r.u.byPath[m.Path()] {
		if cmpSV(v, m.Version()) > 0 && r.returned[mv(m.Path(), v)] {
			r.counters["lower-version-answered-after-higher"]++
			break
		}
	}
	r.returned[m] = true
	return l, nil
}

func (r *simReqs) Upgrade(m module.Version) (module.Version, error) {
	r.call("Upgrade", m)
	if r.failUpg[m.String()] {
		r.faults["upgrade-error"]++
		return module.Version{}, fmt.Errorf("injected upgrade failure for %v", m)
	}
	l := r.u.latest(m.Path())
	if l == "none" || cmpSV(l, m.Version()) <= 0 {
		return m, nil
	}
	return mv(m.Path(), l), nil
}

func (r *simReqs) Previous(m module.Version) (module.Version, error) {
	r.call("Previous", m)
	best := "none"
	for _, v := range r.u.byPath[m.Path()] {
		if cmpSV(v, m.Version()) < 0 && cmpSV(v, best) > 0 {
			best = v
		}
	}
	return module.NewVersion(m.Path(), best)
}

type simRegistry struct {
	r     *simReqs
	files map[module.Version]*modfile.File
}

func (g *simRegistry) ModFile(ctx context.Context, m module.Version) (*modfile.File, error) {
	g.r.call("ModFile", m)
	if g.r.fail[m.String()] {
		g.r.faults["callback-error"]++
		return nil, fmt.Errorf("injected failure for %v", m)
	}
	f, ok := g.files[m]
	if !ok {
		return nil, fmt.Errorf("no module file for %v", m)
	}
	return f, nil
}

func modFileFor(m module.Version, reqs []module.Version) (*modfile.File, error) {
	var b strings.Builder
	fmt.Fprintf(&b, "module: %q\nlanguage: version: \"v0.9.0\"\n", m.Path())
	seen := map[string]bool{}
	for _, r := range reqs {
		if seen[r.Path()] { // a module file has one entry per path: keep the first
			continue
		}
		seen[r.Path()] = true
		fmt.Fprintf(&b, "deps: %q: v: %q\n", r.Path(), r.Version())
	}
	return modfile.Parse([]byte(b.String()), "module.cue")
}

func set(xs []string) map[string]bool {
	m := map[string]bool{}
	for _, x := range xs {
		m[x] = true
	}
	return m
}

// ---------- execution + oracle ----------

type opResult struct {
	list []module.Version
	err  error
	sel  func(path string) string // graph op
}

func exec(t *testing.T, ci sim.CaseI, choices []uint32, keepLog bool) *sim.Outcome {
	c := ci.(*Case)
	u := build(c)
	cfg := c.Sched
	cfg.Choices = choices
	if cfg.MaxSteps == 0 {
		cfg.MaxSteps = 20000
	}
	s := sim.NewSched(cfg, keepLog)
	r := &simReqs{u: u, s: s, maxPark: c.MaxPark, fail: set(c.Fail), failUpg: set(c.FailUpg), stall: set(c.Stall), faults: map[string]int{}, counters: map[string]int{}, returned: map[module.Version]bool{}}
	old := runtime.GOMAXPROCS(0)
	if c.Procs > 0 {
		runtime.GOMAXPROCS(c.Procs)
		defer runtime.GOMAXPROCS(old)
	}
	var files map[module.Version]*modfile.File
	if c.Op == "graph" {
		files = map[module.Version]*modfile.File{}
		for m, reqs := range u.reqs {
			if m == u.main {
				continue
			}
			f, err := modFileFor(m, reqs)
			if err != nil {
				sim.Trouble("cannot build module file: %v", err)
			}
			files[m] = f
		}
	}
	var got opResult
	var panicked any
	res := sim.RunBubble(t, s, func() {
		s.Go("client", 0, func() {
			defer func() {
				if p := recover(); p != nil {
					panicked = p
				}
			}()
			got = runOp(c, u, r, files)
		})
	}, nil)
	out := &sim.Outcome{Res: res, Faults: r.faults, Counters: r.counters}
	out.NonTrivial = r.maxFly >= 2
	out.Counters["max-callbacks-in-flight-"+strconv.Itoa(min(r.maxFly, 10))]++
	out.Counters["op:"+c.Op]++
	if res.Violation == nil && panicked != nil {
		out.Res.Violation = &sim.Violation{Class: "panic", Msg: fmt.Sprint(panicked), Step: res.Steps}
	}
	if out.Res.Violation == nil {
		// liveness: every callback returns once, plus bounded wake-ups
		if v := judge(c, u, r, got); v != nil {
			v.Step = res.Steps
			out.Res.Violation = v
		} else if what := u.modified(); what != "" {
			// every later operation on the same graph selects from requirements nobody stated
			out.Res.Violation = &sim.Violation{Class: "requirements-modified", Step: res.Steps,
				Msg: "a requirement list returned by Reqs.Required was written to: " + what}
		}
	}
	if out.Res.Violation != nil {
		out.Key = c.Op + ":" + out.Res.Violation.Class
	}
	if got.err != nil {
		out.Final = "error"
	} else {
		out.Final = strings.Join(strs(got.list), ",")
	}
	return out
}

func runOp(c *Case, u *universe, r *simReqs, files map[module.Version]*modfile.File) opResult {
	switch c.Op {
	case "buildlist":
		l, err := mvs.BuildList([]module.Version{u.main}, r)
		return opResult{list: l, err: err}
	case "req":
		l, err := mvs.Req(u.main, reachableBase(c, u), r)
		return opResult{list: l, err: err}
	case "upgradeall":
		l, err := mvs.UpgradeAll(u.main, r)
		return opResult{list: l, err: err}
	case "upgrade":
		var up []module.Version
		for _, a := range c.Args {
			up = append(up, mv(a.P, a.V))
		}
		l, err := mvs.Upgrade(u.main, r, up...)
		return opResult{list: l, err: err}
	case "downgrade":
		var down []module.Version
		for _, a := range c.Args {
			down = append(down, mv(a.P, a.V))
		}
		l, err := mvs.Downgrade(u.main, r, down...)
		return opResult{list: l, err: err}
	case "graph":
		reg := &simRegistry{r: r, files: files}
		// root modules: one version per path, as a module file would have
		var roots []module.Version
		seen := map[string]bool{}
		for _, m := range u.reqs[u.main] {
			if !seen[m.Path()] {
				seen[m.Path()] = true
				roots = append(roots, m)
			}
		}
		module.Sort(roots)
		rs := modrequirements.NewRequirements(u.main.Path(), reg, roots, nil)
		mg, err := rs.Graph(context.Background())
		return opResult{list: mg.BuildList(), err: err, sel: mg.Selected}
	}
	panic("unknown op " + c.Op)
}

// reachableBase keeps the precondition of Req (base paths are in the build
// list) true under structural shrinking.
func reachableBase(c *Case, u *universe) []string {
	_, sel := u.fixpoint(nil)
	var out []string
	for _, p := range c.Base {
		if _, ok := sel[p]; ok {
			out = append(out, p)
		}
	}
	return out
}

func viol(class, format string, args ...any) *sim.Violation {
	return &sim.Violation{Class: class, Msg: fmt.Sprintf(format, args...)}
}

func eq(a, b []string) bool {
	if len(a) != len(b) {
		return false
	}
	for i := range a {
		if a[i] != b[i] {
			return false
		}
	}
	return true
}

func judge(c *Case, u *universe, r *simReqs, got opResult) *sim.Violation {
	// version order used by the real code agrees with SemVer 2.0 on every pair of this universe
	var vs module.Versions
	for p, l := range u.byPath {
		for _, a := range l {
			for _, b := range l {
				want := a
				if cmpSV(b, a) > 0 {
					want = b
				}
				if g := vs.Max(a, b); g != want {
					return viol("semver-order", "%s: Max(%s,%s)=%s, SemVer 2.0 precedence says %s", p, a, b, g, want)
				}
			}
		}
	}
	plain := func(m module.Version) []module.Version { return u.reqs[m] }
	reach, sel := u.fixpoint(plain)
	failedReachable := func(reach map[module.Version]bool) []string {
		var out []string
		for f := range r.fail {
			m, err := module.ParseVersion(f)
			if err == nil && reach[m] {
				out = append(out, f)
			}
		}
		sort.Strings(out)
		return out
	}
	switch c.Op {
	case "buildlist":
		if fr := failedReachable(reach); len(fr) > 0 {
			return judgeErr(got, fr)
		}
		if got.err != nil {
			return viol("spurious-error", "BuildList failed without a fault on a reachable node: %v", got.err)
		}
		if want := listOf(u.main, sel); !eq(strs(got.list), want) {
			return viol("wrong-buildlist", "BuildList = %v, brute-force fixpoint = %v", strs(got.list), want)
		}
	case "upgradeall":
		edges := func(m module.Version) []module.Version {
			out := append([]module.Version{}, u.reqs[m]...)
			if m.Path() != u.main.Path() {
				if l := u.latest(m.Path()); cmpSV(l, m.Version()) > 0 {
					out = append(out, mv(m.Path(), l))
				}
			}
			return out
		}
		reach2, sel2 := u.fixpoint(edges)
		fr := failedReachable(reach2)
		for f := range r.failUpg {
			if m, err := module.ParseVersion(f); err == nil && reach2[m] {
				fr = append(fr, f)
			}
		}
		if len(fr) > 0 {
			return judgeErr(got, fr)
		}
		if got.err != nil {
			return viol("spurious-error", "UpgradeAll failed without a fault on a reachable node: %v", got.err)
		}
		if want := listOf(u.main, sel2); !eq(strs(got.list), want) {
			return viol("wrong-upgradeall", "UpgradeAll = %v, brute-force fixpoint = %v", strs(got.list), want)
		}
		for _, m := range got.list[1:] {
			if l := u.latest(m.Path()); cmpSV(m.Version(), l) < 0 {
				return viol("not-upgraded", "UpgradeAll left %v below latest %s", m, l)
			}
		}
	case "upgrade":
		upTo := map[string]string{}
		for _, a := range c.Args {
			if prev, ok := upTo[a.P]; !ok || cmpSV(a.V, prev) > 0 {
				upTo[a.P] = a.V
			}
		}
		edges := func(m module.Version) []module.Version {
			var out []module.Version
			if m == u.main {
				out = append(out, u.reqs[m]...)
				have := map[string]bool{}
				for _, x := range out {
					have[x.Path()] = true
				}
				for _, a := range c.Args {
					if !have[a.P] {
						have[a.P] = true
						out = append(out, mv(a.P, "none"))
					}
				}
				return out
			}
			if m.Version() != "none" {
				out = append(out, u.reqs[m]...)
			}
			if v, ok := upTo[m.Path()]; ok && v != m.Version() {
				out = append(out, mv(m.Path(), v))
			}
			return out
		}
		reach2, sel2 := u.fixpoint(edges)
		if fr := failedReachable(reach2); len(fr) > 0 {
			if r.fail[u.main.String()] {
				fr = append(fr, u.main.String())
			}
			return judgeErr(got, fr)
		}
		if got.err != nil {
			return viol("spurious-error", "Upgrade failed without a fault on a reachable node: %v", got.err)
		}
		if want := listOf(u.main, sel2); !eq(strs(got.list), want) {
			return viol("wrong-upgrade", "Upgrade(%v) = %v, brute-force fixpoint = %v", c.Args, strs(got.list), want)
		}
		gotSel := map[string]string{}
		for _, m := range got.list {
			gotSel[m.Path()] = m.Version()
		}
		for p, v := range upTo {
			if cmpSV(gotSel[p], v) < 0 {
				return viol("not-upgraded", "Upgrade left %s at %q, below the requested %s", p, gotSel[p], v)
			}
		}
	case "req":
		if got.err != nil {
			return viol("spurious-error", "Req failed: %v", got.err)
		}
		want := listOf(u.main, sel)
		// sufficiency: a main module requiring exactly Req(...) has the same build list
		bl := func(main []module.Version) []string {
			_, s2 := u.fixpoint(func(m module.Version) []module.Version {
				if m == u.main {
					return main
				}
				return u.reqs[m]
			})
			return listOf(u.main, s2)
		}
		if g := bl(got.list); !eq(g, want) {
			return viol("req-insufficient", "Req = %v gives build list %v, original %v", strs(got.list), g, want)
		}
		have := map[string]bool{}
		for _, m := range got.list {
			if have[m.Path()] {
				return viol("req-duplicate", "Req lists %s twice: %v", m.Path(), strs(got.list))
			}
			have[m.Path()] = true
			if sel[m.Path()] != m.Version() {
				return viol("req-not-selected", "Req lists %v but the selected version is %s", m, sel[m.Path()])
			}
		}
		base := set(reachableBase(c, u))
		for p := range base {
			if _, reachable := sel[p]; reachable && !have[p] {
				return viol("req-missing-base", "base path %s missing from Req = %v", p, strs(got.list))
			}
		}
		// minimality: no non-base element can be dropped
		for i, m := range got.list {
			if base[m.Path()] {
				continue
			}
			rest := append(append([]module.Version{}, got.list[:i]...), got.list[i+1:]...)
			if g := bl(rest); eq(g, want) {
				return viol("req-not-minimal", "Req = %v: %v is implied by the rest", strs(got.list), m)
			}
		}
		// the real BuildList agrees when run over Req's answer (follow-up, no parking)
		r.nopark = true
		r.over = map[module.Version][]module.Version{u.main: got.list}
		l2, err := mvs.BuildList([]module.Version{u.main}, r)
		r.over = nil
		if err != nil || !eq(strs(l2), want) {
			return viol("req-insufficient", "BuildList over Req = %v, %v; original %v", strs(l2), err, want)
		}
	case "downgrade":
		if got.err != nil {
			return viol("spurious-error", "Downgrade failed: %v", got.err)
		}
		if len(got.list) == 0 || got.list[0] != u.main {
			return viol("downgrade-target", "Downgrade result does not start with the target: %v", strs(got.list))
		}
		gotSel := map[string]string{}
		for _, m := range got.list {
			if _, dup := gotSel[m.Path()]; dup {
				return viol("downgrade-duplicate", "duplicate path in %v", strs(got.list))
			}
			gotSel[m.Path()] = m.Version()
		}
		for _, a := range c.Args {
			if v, ok := gotSel[a.P]; ok && cmpSV(v, a.V) > 0 {
				return viol("downgrade-too-high", "Downgrade(%v) left %s at %s", c.Args, a.P, v)
			}
		}
		for p, v := range gotSel {
			if o, ok := sel[p]; ok && cmpSV(v, o) > 0 {
				return viol("downgrade-raised", "Downgrade raised %s from %s to %s", p, o, v)
			}
		}
		// closed: the result is the build list of itself taken as the target's requirements
		_, s2 := u.fixpoint(func(m module.Version) []module.Version {
			if m == u.main {
				return got.list[1:]
			}
			return u.reqs[m]
		})
		if w := listOf(u.main, s2); !eq(strs(got.list), w) {
			return viol("downgrade-not-closed", "Downgrade = %v is not a build list (its closure is %v)", strs(got.list), w)
		}
		// schedule independence: the same call with callbacks answered in program order
		r.nopark = true
		var down []module.Version
		for _, a := range c.Args {
			down = append(down, mv(a.P, a.V))
		}
		ref, err := mvs.Downgrade(u.main, r, down...)
		if err != nil || !eq(strs(ref), strs(got.list)) {
			return viol("downgrade-schedule-dependent", "Downgrade under this schedule = %v, run alone = %v (%v)", strs(got.list), strs(ref), err)
		}
	case "graph":
		// pruned graph: roots and the roots' direct requirements only
		roots := map[string]module.Version{}
		for _, m := range u.reqs[u.main] {
			if _, ok := roots[m.Path()]; !ok {
				roots[m.Path()] = m
			}
		}
		sel3 := map[string]string{u.main.Path(): ""}
		failed := []string{}
		up := func(m module.Version) {
			if cur, ok := sel3[m.Path()]; !ok || cmpSV(m.Version(), cur) > 0 {
				sel3[m.Path()] = m.Version()
			}
		}
		for _, m := range roots {
			up(m)
		}
		for _, m := range roots {
			if r.fail[m.String()] {
				failed = append(failed, m.String())
				continue
			}
			seen := map[string]bool{}
			for _, d := range u.reqs[m] {
				if seen[d.Path()] {
					continue
				}
				seen[d.Path()] = true
				up(d)
			}
		}
		if len(failed) > 0 {
			if got.err == nil {
				return viol("missing-error", "Graph returned no error although ModFile failed for %v", failed)
			}
			var ble *mvs.BuildListError[module.Version]
			if errors.As(got.err, &ble) && !set(failed)[ble.Module().String()] {
				return viol("wrong-error-module", "Graph error names %v, failed were %v", ble.Module(), failed)
			}
			return nil
		}
		if got.err != nil {
			return viol("spurious-error", "Graph failed without a fault on a root: %v", got.err)
		}
		for p, v := range sel3 {
			if g := got.sel(p); g != v {
				return viol("wrong-graph-selection", "Graph.Selected(%s) = %s, want %s", p, g, v)
			}
		}
		if want := listOf(u.main, sel3); !eq(strs(got.list), want) {
			return viol("wrong-graph-buildlist", "Graph.BuildList = %v, want %v", strs(got.list), want)
		}
	}
	return nil
}

func judgeErr(got opResult, failed []string) *sim.Violation {
	if got.err == nil {
		return viol("missing-error", "a list %v was returned although the requirements of reachable %v could not be loaded", strs(got.list), failed)
	}
	var ble *mvs.BuildListError[module.Version]
	if errors.As(got.err, &ble) {
		if !set(failed)[ble.Module().String()] {
			return viol("wrong-error-module", "error names %v, failed were %v", ble.Module(), failed)
		}
	}
	return nil
}

var Prop = &sim.Prop{
	ID:  "C14",
	New: func() sim.CaseI { return &Case{} },
	Gen: gen,
	Exec: exec,
	Rule: "case = random requirement graph (2-8 paths x 1-4 semver versions incl. pre-releases, up to 12x5 in the thorough tier; shapes: chains, dense diamonds/cycles, duplicates, permuted lists) x one operation (BuildList, Req, UpgradeAll, Upgrade, Downgrade, Requirements.Graph) x scheduler policy and knobs x fault plan, all from the run seed; non-trivial = at least two requirement callbacks were in flight at the same time; distinct = distinct hash of the full event log (task, hook site, module version at every scheduling step)",
	Real: []string{"internal/mod/mvs", "internal/par (Work, Queue, ErrCache)", "mod/module.Versions + internal/mod/semver", "internal/mod/modrequirements (Requirements.Graph)", "mod/modfile.Parse (graph op)"},
	Stubs: []string{"the requirement graph: in-memory mvs.Reqs / modrequirements.Registry whose callbacks park in the simulator"},
}

func TestWorker(t *testing.T) { sim.WorkerMain(t, Prop) }
