#!/bin/bash
# sensitivity.sh [names...] — applies seeded changes under /verif/seeded to /repo in turn, runs the quick tier of
# the property, records whether a VIOLATION was reported (seeded/<name>/last_result.txt) and restores /repo each
# time; then regenerates seeded/RESULTS.md from all recorded results.
cd /verif
names=${@:-$(ls -d seeded/*/ | xargs -n1 basename)}
for n in $names; do
  prop=$(python3 -c "import json;print(json.load(open('seeded/$n/meta.json'))['property'])")
  git -C /repo diff --quiet || { echo "/repo dirty"; exit 2; }
  if ! git -C /repo apply /verif/seeded/$n/patch.diff 2>/dev/null && ! git -C /repo apply --3way /verif/seeded/$n/patch.diff 2>/dev/null; then
    echo "$n|$prop|PATCH DOES NOT APPLY||" > seeded/$n/last_result.txt; git -C /repo reset -q --hard; continue
  fi
  ./check $prop quick > /tmp/sens-$n.out 2>&1; rc=$?
  git -C /repo reset -q --hard
  first=$(grep -m1 "class=" /tmp/sens-$n.out | sed 's/^ *//' | sed 's/ step=.*//' | tr '|' '/' | cut -c1-110)
  runs=$(grep -m1 "^$prop quick:" /tmp/sens-$n.out | sed 's/ (.*//')
  case $rc in 1) res="VIOLATION reported";; 0) res="**not detected**";; *) res="harness trouble (exit $rc)";; esac
  echo "$n|$prop|$res|$runs|$first" > seeded/$n/last_result.txt
  echo "$n $prop rc=$rc $first"
done
{ echo "Last result of \`tools/sensitivity.sh\` per seeded change (quick tier, change applied to /repo and undone):"; echo
  echo "| seeded change | property | quick-tier result | runs until stop | first report |"; echo "|---|---|---|---|---|"
  for f in seeded/*/last_result.txt; do IFS='|' read n prop res runs first < $f; echo "| $n | $prop | $res | $runs | $first |"; done; } > seeded/RESULTS.md
