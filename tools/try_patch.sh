#!/bin/bash
# try_patch.sh <patch> <id> [runs]  — apply a seeded change to /repo, run the quick check of <id>, undo.
p=$1; id=$2; runs=${3:-}
git -C /repo diff --quiet && git -C /repo diff --cached --quiet || { echo "/repo is dirty"; exit 2; }
git -C /repo apply "$p" 2>/dev/null || git -C /repo apply --3way "$p" || { echo "patch does not apply"; git -C /repo reset -q --hard; exit 2; }
if [ -n "$runs" ]; then export VERIF_RUNS=$runs; fi
/verif/check $id quick 2>&1 | grep -v "^goroutine\|^$\|^\s\s\s\s" | cut -c1-400 | head -${LINES_OUT:-14}
git -C /repo reset -q --hard
git -C /repo status --short | head -3
