#!/bin/bash
# try_patch.sh <patch> <id> [runs]  — apply a seeded change to /repo, run the quick check of <id>, undo.
p=$1; id=$2; runs=${3:-}
git -C /repo diff --quiet || { echo "/repo is dirty"; exit 2; }
git -C /repo apply "$p" || { echo "patch does not apply"; exit 2; }
if [ -n "$runs" ]; then export VERIF_RUNS=$runs; fi
/verif/check $id quick 2>&1 | grep -v "^goroutine\|^$\|^\s\s\s\s" | cut -c1-400 | head -${LINES_OUT:-14}
echo "exit=${PIPESTATUS[0]}"
git -C /repo checkout -- .
git -C /repo status --short | head -3
