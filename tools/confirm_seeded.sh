#!/bin/bash
# confirm_seeded.sh <name> <demo-src> <demo-dest-rel> <demo-go-test-args> -- <existing-test-pkgs...>
# Confirms a sub-agent's seeded change in a fresh scratch worktree (outside /repo and /verif):
#  patch applies, tree builds, listed existing tests pass with it, demo FAILS with it, demo PASSES without it.
set -u
name=$1; demosrc=$2; demodest=$3; demoargs=$4; shift 4; [ "$1" = "--" ] && shift
export GOFLAGS=-mod=mod GOPROXY=off GOSUMDB=off GOTOOLCHAIN=local
G=/root/go/pkg/mod/golang.org/toolchain@v0.0.1-go1.25.0.linux-amd64/bin/go
wt=/tmp/wt/confirm-$name
git -C /repo worktree remove --force $wt 2>/dev/null
git -C /repo worktree add -q --detach $wt HEAD || exit 2
cd $wt
res=ok
git apply /tmp/mut/$name/patch.diff || { echo "RESULT $name: APPLY-FAILED"; exit 1; }
$G build ./... || { echo "RESULT $name: BUILD-FAILED"; exit 1; }
echo "== existing tests with the change"
$G test "$@" 2>&1 | grep -v "no test files" | grep -v "^ok" | grep -v "modload_unreadable_file\|fmt_issue1791" | head -20 > /tmp/wt/confirm-$name.fail
if grep -q "FAIL" /tmp/wt/confirm-$name.fail; then cat /tmp/wt/confirm-$name.fail; res="EXISTING-TESTS-FAIL"; fi
cp /tmp/mut/$name/$demosrc $demodest
echo "== demo with the change (must fail)"
if $G test $demoargs > /tmp/wt/confirm-$name.with 2>&1; then echo "demo PASSED with the change"; res="$res DEMO-DOES-NOT-FAIL"; else tail -5 /tmp/wt/confirm-$name.with | cut -c1-300; fi
git checkout -q -- . 
echo "== demo without the change (must pass)"
if $G test $demoargs > /tmp/wt/confirm-$name.without 2>&1; then echo "demo passed without the change"; else tail -8 /tmp/wt/confirm-$name.without | cut -c1-300; res="$res DEMO-FAILS-WITHOUT"; fi
cd /; git -C /repo worktree remove --force $wt
echo "RESULT $name: $res"
