package sim

import (
	"encoding/binary"
	"encoding/json"
	"fmt"
	"os"
	"path/filepath"
	"sort"
	"testing"
	"time"
)

// CaseI is one fully determined simulated run minus its decision vector:
// workload, knobs and fault plan.
type CaseI interface {
	SchedCfg() *SchedConfig
	// Shrinks returns structurally smaller variants, most aggressive first.
	Shrinks() []CaseI
	// Summary is a compact rendering for evidence samples.
	Summary() any
}

// Outcome is what executing a case yields.
type Outcome struct {
	Res        Result
	NonTrivial bool           // by the property's stated rule
	Faults     map[string]int // faults that actually fired, per kind
	Counters   map[string]int // reach counters
	Key        string         // identifies a violation for known-findings matching
	Final      string         // canonical final outcome (schedule-independence comparisons)
}

// Prop is what a property package registers.
type Prop struct {
	ID    string
	New   func() CaseI
	Gen   func(runSeed uint64, tier string, idx int) CaseI
	Exec  func(t *testing.T, c CaseI, choices []uint32, keepLog bool) *Outcome
	Rule  string
	Real  []string
	Stubs []string
}

// KnownFinding is an entry of /verif/known-findings.json.
type KnownFinding struct {
	Property    string `json:"property"`
	Kind        string `json:"kind"` // finding | fixed
	Key         string `json:"key"`
	Description string `json:"description"`
	Commit      string `json:"commit,omitempty"`
}

// Job is the driver → worker message.
type Job struct {
	Mode       string         `json:"mode"` // explore | replay | hashes
	Property   string         `json:"property"`
	Tier       string         `json:"tier"`
	Seed       uint64         `json:"seed"`
	Worker     int            `json:"worker"`
	Workers    int            `json:"workers"`
	Runs       int            `json:"runs"`
	Deadline   int64          `json:"deadline_unix"`
	OutDir     string         `json:"out_dir"`
	ReplayFile string         `json:"replay_file,omitempty"`
	MaxViol    int            `json:"max_viol"`
	Known      []KnownFinding `json:"known,omitempty"`
	ShrinkSecs int            `json:"shrink_secs"`
}

// Replay is the replay file: a pure function of it and the tree decides the run.
type Replay struct {
	Property  string          `json:"property"`
	Tier      string          `json:"tier"`
	Seed      uint64          `json:"seed"`
	RunIndex  int             `json:"run_index"`
	RunSeed   uint64          `json:"run_seed"`
	Case      json.RawMessage `json:"case"`
	Choices   []uint32        `json:"choices"`
	Violation *Violation      `json:"violation"`
	Key       string          `json:"key"`
	LogHash   uint64          `json:"log_hash"`
	Shrunk    string          `json:"shrunk,omitempty"`
	// PolicyDriven: Choices is not used, the case's scheduler policy and seed decide (crash replays).
	PolicyDriven bool `json:"policy_driven,omitempty"`
	Log       []string        `json:"log,omitempty"`
}

// WorkerResult is the worker → driver message.
type WorkerResult struct {
	Worker      int            `json:"worker"`
	Runs        int            `json:"runs"`
	NonTrivial  int            `json:"nontrivial"`
	Steps       int64          `json:"steps"`
	SimTimeNs   int64          `json:"sim_time_ns"`
	Switches    int64          `json:"switches"`
	MaxParked   int            `json:"max_parked"`
	Faults      map[string]int `json:"faults"`
	Counters    map[string]int `json:"counters"`
	Probes      map[string]int `json:"probes"`
	SiteHits    map[string]int `json:"site_hits"`
	SiteParks   map[string]int `json:"site_parks"`
	Policies    map[string]int `json:"policies"`
	Samples     []any          `json:"samples"`
	Violations  []string       `json:"violations"` // replay file paths
	KnownHits   map[string]int `json:"known_hits"`
	Trouble     []string       `json:"trouble"`
	TimedOut    bool           `json:"timed_out"`
	Leaked      int            `json:"leaked_runs"`
	WallS       float64        `json:"wall_s"`
	ReplayOK    bool           `json:"replay_ok"`
	ReplayClass string         `json:"replay_class,omitempty"`
	ReplayKey   string         `json:"replay_key,omitempty"`
	Rule        string         `json:"rule,omitempty"`
	Real        []string       `json:"real,omitempty"`
	Stubs       []string       `json:"stubs,omitempty"`
}

func addMap(dst, src map[string]int) {
	for k, v := range src {
		dst[k] += v
	}
}

// WorkerMain is the body of each property's TestWorker.
func WorkerMain(t *testing.T, p *Prop) {
	jobPath := os.Getenv("CUESIM_JOB")
	if jobPath == "" {
		t.Skip("CUESIM_JOB not set: this test binary is a simulation worker driven by /verif/check")
	}
	data, err := os.ReadFile(jobPath)
	if err != nil {
		trouble("read job: %v", err)
	}
	var job Job
	if err := json.Unmarshal(data, &job); err != nil {
		trouble("parse job: %v", err)
	}
	StartWatchdog(90 * time.Second)
	switch job.Mode {
	case "explore", "hashes":
		explore(t, p, &job)
	case "replay":
		replay(t, p, &job)
	default:
		trouble("unknown mode %q", job.Mode)
	}
}

func trouble(format string, args ...any) {
	fmt.Fprintf(os.Stderr, "HARNESS-TROUBLE: "+format+"\n", args...)
	os.Exit(2)
}

func writeJSON(path string, v any) {
	data, err := json.MarshalIndent(v, "", " ")
	if err != nil {
		trouble("marshal %s: %v", path, err)
	}
	if err := os.WriteFile(path, data, 0o644); err != nil {
		trouble("write %s: %v", path, err)
	}
}

func explore(t *testing.T, p *Prop, job *Job) {
	start := time.Now()
	res := &WorkerResult{
		Worker: job.Worker, Faults: map[string]int{}, Counters: map[string]int{}, Probes: map[string]int{},
		SiteHits: map[string]int{}, SiteParks: map[string]int{}, Policies: map[string]int{}, KnownHits: map[string]int{},
	}
	known := map[string]bool{}
	for _, k := range job.Known {
		if k.Property == p.ID && k.Kind == "finding" {
			known[k.Key] = true
		}
	}
	hashes := map[uint64]struct{}{}
	var hashLines []byte
	cur := filepath.Join(job.OutDir, fmt.Sprintf("current.%d", job.Worker))
	curF, _ := os.Create(cur)
	for i := job.Worker; i < job.Runs; i += job.Workers {
		if job.Deadline > 0 && time.Now().Unix() > job.Deadline {
			res.TimedOut = true
			break
		}
		runSeed := Mix(job.Seed, uint64(i))
		if curF != nil {
			var b [8]byte
			binary.LittleEndian.PutUint64(b[:], uint64(i))
			curF.WriteAt(b[:], 0)
		}
		c := p.Gen(runSeed, job.Tier, i)
		if os.Getenv("CUESIM_DUMPCASE") != "" {
			writeJSON(filepath.Join(job.OutDir, "case.json"), c)
		}
		out := p.Exec(t, c, nil, false)
		res.Runs++
		res.Steps += int64(out.Res.Steps)
		res.SimTimeNs += int64(out.Res.SimTime)
		res.Switches += int64(out.Res.Switches)
		if out.Res.MaxParked > res.MaxParked {
			res.MaxParked = out.Res.MaxParked
		}
		if out.Res.Leaked {
			res.Leaked++
		}
		addMap(res.Faults, out.Faults)
		addMap(res.Counters, out.Counters)
		addMap(res.Probes, out.Res.Probes)
		addMap(res.SiteHits, out.Res.SiteHits)
		addMap(res.SiteParks, out.Res.SiteParks)
		res.Policies[c.SchedCfg().Policy]++
		if out.NonTrivial {
			if _, dup := hashes[out.Res.Hash]; !dup {
				hashes[out.Res.Hash] = struct{}{}
			}
		}
		if job.Mode == "hashes" {
			cls := ""
			if out.Res.Violation != nil {
				cls = out.Res.Violation.Class
			}
			hashLines = fmt.Appendf(hashLines, "%d %016x %d %s %s\n", i, out.Res.Hash, out.Res.Steps, cls, out.Final)
		}
		if len(res.Samples) < 3 && out.NonTrivial && res.Runs%7 == 1 {
			// re-execute with the log kept, so that the sample shows the run
			o2 := p.Exec(t, c, out.Res.Choices, true)
			log := o2.Res.Log
			if len(log) > 60 {
				log = append(append([]string{}, log[:40]...), fmt.Sprintf("… %d more steps …", len(log)-40))
			}
			res.Samples = append(res.Samples, map[string]any{
				"run_index": i, "run_seed": runSeed, "case": c.Summary(), "steps": out.Res.Steps,
				"choices": len(out.Res.Choices), "log_hash": fmt.Sprintf("%016x", out.Res.Hash), "faults_fired": out.Faults, "event_log": log,
			})
		}
		if v := out.Res.Violation; v != nil && job.Mode == "explore" {
			if known[out.Key] {
				res.KnownHits[out.Key]++
				continue
			}
			// reproducibility first: a failure that does not replay is harness trouble, not a violation
			o2 := p.Exec(t, c, out.Res.Choices, false)
			if o2.Res.Violation == nil || o2.Res.Violation.Class != v.Class {
				res.Trouble = append(res.Trouble, fmt.Sprintf("run %d (seed %d): violation %q did not reproduce on immediate re-execution (got %v): suspected uncontrolled nondeterminism", i, runSeed, v.Class, o2.Res.Violation))
				continue
			}
			rp := shrink(t, p, job, i, runSeed, c, out)
			path := filepath.Join(job.OutDir, fmt.Sprintf("replay-%s-%d.json", p.ID, i))
			writeJSON(path, rp)
			res.Violations = append(res.Violations, path)
			if len(res.Violations) >= job.MaxViol {
				break
			}
		}
	}
	if curF != nil {
		curF.Close()
		os.Remove(cur)
	}
	// distinct hashes, binary
	hb := make([]byte, 0, 8*len(hashes))
	keys := make([]uint64, 0, len(hashes))
	for h := range hashes {
		keys = append(keys, h)
	}
	sort.Slice(keys, func(i, j int) bool { return keys[i] < keys[j] })
	for _, h := range keys {
		hb = binary.LittleEndian.AppendUint64(hb, h)
	}
	os.WriteFile(filepath.Join(job.OutDir, fmt.Sprintf("hashes.%d.bin", job.Worker)), hb, 0o644)
	if job.Mode == "hashes" {
		os.WriteFile(filepath.Join(job.OutDir, fmt.Sprintf("hashlines.%d.txt", job.Worker)), hashLines, 0o644)
	}
	res.NonTrivial = len(hashes)
	res.Rule, res.Real, res.Stubs = p.Rule, p.Real, p.Stubs
	res.WallS = time.Since(start).Seconds()
	writeJSON(filepath.Join(job.OutDir, fmt.Sprintf("result.%d.json", job.Worker)), res)
}

func replay(t *testing.T, p *Prop, job *Job) {
	data, err := os.ReadFile(job.ReplayFile)
	if err != nil {
		trouble("read replay: %v", err)
	}
	var rp Replay
	if err := json.Unmarshal(data, &rp); err != nil {
		trouble("parse replay: %v", err)
	}
	c := p.New()
	if err := json.Unmarshal(rp.Case, c); err != nil {
		trouble("parse case: %v", err)
	}
	if rp.Choices == nil {
		rp.Choices = []uint32{}
	}
	if rp.PolicyDriven {
		rp.Choices = nil
	}
	out := p.Exec(t, c, rp.Choices, true)
	res := &WorkerResult{}
	if out.Res.Violation != nil {
		res.ReplayClass = out.Res.Violation.Class
		res.ReplayKey = out.Key
		res.ReplayOK = rp.Violation != nil && out.Res.Violation.Class == rp.Violation.Class
		fmt.Printf("replay: violation class=%s step=%d: %s\n", out.Res.Violation.Class, out.Res.Violation.Step, out.Res.Violation.Msg)
	} else {
		fmt.Printf("replay: no violation\n")
	}
	if out.Res.Hash != rp.LogHash {
		fmt.Printf("replay: log hash %016x differs from recorded %016x\n", out.Res.Hash, rp.LogHash)
		if res.ReplayOK {
			res.Trouble = append(res.Trouble, "log hash differs")
		}
	}
	for _, l := range out.Res.Log {
		fmt.Println(l)
	}
	writeJSON(filepath.Join(job.OutDir, "result.0.json"), res)
}

// shrink minimises (case, choices) while the same violation class persists.
func shrink(t *testing.T, p *Prop, job *Job, idx int, runSeed uint64, c CaseI, out *Outcome) *Replay {
	class := out.Res.Violation.Class
	deadline := time.Now().Add(time.Duration(max(job.ShrinkSecs, 5)) * time.Second)
	best, bestOut := c, out
	choices := append([]uint32{}, out.Res.Choices...)
	tries := 0
	fails := func(cc CaseI, ch []uint32) *Outcome {
		tries++
		o := p.Exec(t, cc, ch, false)
		if o.Res.Violation != nil && o.Res.Violation.Class == class {
			return o
		}
		return nil
	}
	trim := func(ch []uint32) []uint32 {
		n := len(ch)
		for n > 0 && ch[n-1] == 0 {
			n--
		}
		return ch[:n]
	}
	progress := true
	for progress && time.Now().Before(deadline) {
		progress = false
		// structural
		for again := true; again && time.Now().Before(deadline); {
			again = false
			for _, cand := range best.Shrinks() {
				if time.Now().After(deadline) {
					break
				}
				if o := fails(cand, choices); o != nil {
					best, bestOut, again, progress = cand, o, true, true
					choices = append([]uint32{}, o.Res.Choices...)
					break
				}
				if o := fails(cand, []uint32{}); o != nil {
					best, bestOut, again, progress = cand, o, true, true
					choices = []uint32{}
					break
				}
			}
		}
		// decision vector: zero blocks
		choices = trim(choices)
		for bs := (len(choices) + 1) / 2; bs >= 1 && time.Now().Before(deadline); bs /= 2 {
			for lo := 0; lo < len(choices) && time.Now().Before(deadline); lo += bs {
				hi := min(lo+bs, len(choices))
				nz := false
				for _, v := range choices[lo:hi] {
					if v != 0 {
						nz = true
					}
				}
				if !nz {
					continue
				}
				cand := append([]uint32{}, choices...)
				for i := lo; i < hi; i++ {
					cand[i] = 0
				}
				if o := fails(best, cand); o != nil {
					bestOut, progress = o, true
					choices = trim(append([]uint32{}, o.Res.Choices...))
					if lo >= len(choices) {
						break
					}
				}
			}
			if bs == 1 {
				break
			}
		}
	}
	// final run with the log kept
	final := p.Exec(t, best, choices, true)
	if final.Res.Violation == nil || final.Res.Violation.Class != class {
		// should not happen (pure function); fall back to the unshrunk tuple
		best, choices = c, out.Res.Choices
		final = p.Exec(t, best, choices, true)
	}
	_ = bestOut
	raw, _ := json.Marshal(best)
	log := final.Res.Log
	if len(log) > 400 {
		log = log[len(log)-400:]
	}
	return &Replay{
		Property: p.ID, Tier: job.Tier, Seed: job.Seed, RunIndex: idx, RunSeed: runSeed,
		Case: raw, Choices: choices, Violation: final.Res.Violation, Key: final.Key, LogHash: final.Res.Hash,
		Shrunk: fmt.Sprintf("%d re-executions; steps %d → %d; decisions %d → %d", tries, out.Res.Steps, final.Res.Steps, len(out.Res.Choices), len(choices)),
		Log:    log,
	}
}
