package sim

import (
	"encoding/binary"
	"encoding/json"
	"fmt"
	"os"
	"os/exec"
	"path/filepath"
	"sort"
	"strconv"
	"strings"
	"testing"
	"time"
)

// CaseI is one fully determined simulated run minus its decision vector:
// workload, knobs and fault plan.
type CaseI interface {
	SchedCfg() *SchedConfig
	// Shrinks returns structurally smaller variants, most aggressive first.
	Shrinks() []CaseI
	// Summary is a compact rendering for evidence samples.
	Summary() any
}

// Outcome is what executing a case yields.
type Outcome struct {
	Res        Result
	NonTrivial bool           // by the property's stated rule
	Faults     map[string]int // faults that actually fired, per kind
	Counters   map[string]int // reach counters
	Key        string         // identifies a violation for known-findings matching
	Final      string         // canonical final outcome (schedule-independence comparisons)
}

// Prop is what a property package registers.
type Prop struct {
	ID    string
	New   func() CaseI
	Gen   func(runSeed uint64, tier string, idx int) CaseI
	Exec  func(t *testing.T, c CaseI, choices []uint32, keepLog bool) *Outcome
	Rule  string
	Real  []string
	Stubs []string
	// Isolated: executions happen in fresh child processes, a batch of
	// consecutive runs per child, so that a run is a pure function of (the runs
	// before it in its batch, case, decisions) even though the code under test
	// keeps process-global state (label index, type caches). A child that dies
	// is a violation of class "crash". A replay file carries the batch prefix.
	Isolated bool
	// Expand, when set, derives further runs from a finished one (used to
	// enumerate every single-kill point of a sampled universe and schedule).
	// Each derived run is executed, accounted and judged like a generated one.
	Expand func(c CaseI, out *Outcome, tier string) []Derived
}

// Derived is a run derived from another one: a case plus the decision
// vector to replay (nil = the case's policy decides).
type Derived struct {
	Case    CaseI
	Choices []uint32
}

// runSpec is one execution request.
type runSpec struct {
	c       CaseI
	choices []uint32 // nil = the case's policy decides
}

type childRun struct {
	Case    json.RawMessage `json:"case"`
	Choices []uint32        `json:"choices"`
	Replay  bool            `json:"replay"`
}

type childReq struct {
	Runs        []childRun `json:"runs"`
	KeepLogLast bool       `json:"keep_log_last"`
}

// executor runs batches of specs, in-process or in a fresh child each.
type executor struct {
	t   *testing.T
	p   *Prop
	dir string
	n   int
}

// batch executes specs in order from a fresh state (isolated properties) and
// returns the outcomes. If the child dies while executing spec k, the result
// has k+1 elements, the last being a synthetic outcome of class "crash".
func (e *executor) batch(specs []runSpec, keepLogLast bool) []*Outcome {
	if !e.p.Isolated {
		outs := make([]*Outcome, len(specs))
		for i, s := range specs {
			outs[i] = e.p.Exec(e.t, s.c, s.choices, keepLogLast && i == len(specs)-1)
		}
		return outs
	}
	e.n++
	req := childReq{KeepLogLast: keepLogLast}
	for _, s := range specs {
		raw, _ := json.Marshal(s.c)
		req.Runs = append(req.Runs, childRun{Case: raw, Choices: s.choices, Replay: s.choices != nil})
	}
	in := filepath.Join(e.dir, fmt.Sprintf("child.%d.%d.json", os.Getpid(), e.n%4))
	data, _ := json.Marshal(req)
	if err := os.WriteFile(in, data, 0o644); err != nil {
		trouble("child request: %v", err)
	}
	os.Remove(in + ".out")
	cmd := exec.Command(os.Args[0], "-test.run", "^TestWorker$", "-test.timeout", "0", "-test.count", "1")
	cmd.Env = append(os.Environ(), "CUESIM_CHILD="+in)
	var stderr strings.Builder
	cmd.Stderr = &stderr
	cmd.Stdout = &stderr
	err := cmd.Run()
	var outs []*Outcome
	if outData, rerr := os.ReadFile(in + ".out"); rerr == nil {
		for _, line := range strings.Split(string(outData), "\n") {
			if strings.TrimSpace(line) == "" {
				continue
			}
			var out Outcome
			if json.Unmarshal([]byte(line), &out) != nil {
				break
			}
			outs = append(outs, &out)
		}
	}
	if len(outs) == len(specs) {
		return outs
	}
	msg := stderr.String()
	if strings.Contains(msg, "HARNESS-TROUBLE") {
		fmt.Fprint(os.Stderr, msg)
		os.Exit(2)
	}
	if err == nil {
		trouble("child produced %d of %d outcomes and did not fail:\n%s", len(outs), len(specs), msg)
	}
	if len(msg) > 8000 {
		msg = msg[:8000]
	}
	key := "unknown"
	for _, l := range strings.Split(msg, "\n") {
		if strings.HasPrefix(l, "fatal error:") || strings.HasPrefix(l, "panic:") {
			key = strings.TrimSpace(l)
			break
		}
	}
	return append(outs, &Outcome{Res: Result{Violation: &Violation{Class: "crash", Msg: msg}}, Key: "crash: " + key, NonTrivial: true})
}

func childMain(t *testing.T, p *Prop, in string) {
	data, err := os.ReadFile(in)
	if err != nil {
		trouble("child: %v", err)
	}
	var req childReq
	if err := json.Unmarshal(data, &req); err != nil {
		trouble("child: %v", err)
	}
	f, err := os.Create(in + ".out")
	if err != nil {
		trouble("child: %v", err)
	}
	defer f.Close()
	for i, r := range req.Runs {
		c := p.New()
		if err := json.Unmarshal(r.Case, c); err != nil {
			trouble("child: case: %v", err)
		}
		choices := r.Choices
		if r.Replay && choices == nil {
			choices = []uint32{}
		}
		if !r.Replay {
			choices = nil
		}
		out := p.Exec(t, c, choices, req.KeepLogLast && i == len(req.Runs)-1)
		if out.Res.Choices == nil {
			out.Res.Choices = []uint32{}
		}
		od, err := json.Marshal(out)
		if err != nil {
			trouble("child: marshal outcome: %v", err)
		}
		f.Write(append(od, '\n'))
		f.Sync()
	}
}

// KnownFinding is an entry of /verif/known-findings.json.
type KnownFinding struct {
	Property    string `json:"property"`
	Kind        string `json:"kind"` // finding | fixed
	Key         string `json:"key"`
	Description string `json:"description"`
	Commit      string `json:"commit,omitempty"`
}

// Job is the driver → worker message.
type Job struct {
	Mode       string         `json:"mode"` // explore | replay | hashes
	Property   string         `json:"property"`
	Tier       string         `json:"tier"`
	Seed       uint64         `json:"seed"`
	Worker     int            `json:"worker"`
	Workers    int            `json:"workers"`
	Runs       int            `json:"runs"`
	Deadline   int64          `json:"deadline_unix"`
	OutDir     string         `json:"out_dir"`
	ReplayFile string         `json:"replay_file,omitempty"`
	MaxViol    int            `json:"max_viol"`
	Known      []KnownFinding `json:"known,omitempty"`
	ShrinkSecs int            `json:"shrink_secs"`
	Batch      int            `json:"batch,omitempty"` // isolated properties: runs per child process
}

// PrefixRun is a run that precedes the failing one in the same process.
type PrefixRun struct {
	Case    json.RawMessage `json:"case"`
	Choices []uint32        `json:"choices"`
}

// Replay is the replay file: a pure function of it and the tree decides the run.
type Replay struct {
	Property  string          `json:"property"`
	Tier      string          `json:"tier"`
	Seed      uint64          `json:"seed"`
	RunIndex  int             `json:"run_index"`
	RunSeed   uint64          `json:"run_seed"`
	Prefix    []PrefixRun     `json:"prefix,omitempty"` // isolated properties: runs executed before, in the same fresh process
	Case      json.RawMessage `json:"case"`
	Choices   []uint32        `json:"choices"`
	Violation *Violation      `json:"violation"`
	Key       string          `json:"key"`
	LogHash   uint64          `json:"log_hash"`
	Shrunk    string          `json:"shrunk,omitempty"`
	// PolicyDriven: Choices is not used, the case's scheduler policy and seed decide (crash replays).
	PolicyDriven bool     `json:"policy_driven,omitempty"`
	Log          []string `json:"log,omitempty"`
}

// WorkerResult is the worker → driver message.
type WorkerResult struct {
	Worker      int            `json:"worker"`
	Runs        int            `json:"runs"`
	NonTrivial  int            `json:"nontrivial"`
	Steps       int64          `json:"steps"`
	SimTimeNs   int64          `json:"sim_time_ns"`
	Switches    int64          `json:"switches"`
	MaxParked   int            `json:"max_parked"`
	Faults      map[string]int `json:"faults"`
	Counters    map[string]int `json:"counters"`
	Probes      map[string]int `json:"probes"`
	SiteHits    map[string]int `json:"site_hits"`
	SiteParks   map[string]int `json:"site_parks"`
	Policies    map[string]int `json:"policies"`
	Samples     []any          `json:"samples"`
	Violations  []string       `json:"violations"` // replay file paths
	KnownHits   map[string]int `json:"known_hits"`
	Trouble     []string       `json:"trouble"`
	TimedOut    bool           `json:"timed_out"`
	Leaked      int            `json:"leaked_runs"`
	WallS       float64        `json:"wall_s"`
	ReplayOK    bool           `json:"replay_ok"`
	ReplayClass string         `json:"replay_class,omitempty"`
	ReplayKey   string         `json:"replay_key,omitempty"`
	Rule        string         `json:"rule,omitempty"`
	Real        []string       `json:"real,omitempty"`
	Stubs       []string       `json:"stubs,omitempty"`
	Children    int            `json:"child_processes,omitempty"`
}

func addMap(dst, src map[string]int) {
	for k, v := range src {
		dst[k] += v
	}
}

// WorkerMain is the body of each property's TestWorker.
func WorkerMain(t *testing.T, p *Prop) {
	if in := os.Getenv("CUESIM_CHILD"); in != "" {
		StartWatchdog(90 * time.Second)
		childMain(t, p, in)
		return
	}
	jobPath := os.Getenv("CUESIM_JOB")
	if jobPath == "" {
		t.Skip("CUESIM_JOB not set: this test binary is a simulation worker driven by /verif/check")
	}
	data, err := os.ReadFile(jobPath)
	if err != nil {
		trouble("read job: %v", err)
	}
	var job Job
	if err := json.Unmarshal(data, &job); err != nil {
		trouble("parse job: %v", err)
	}
	if !p.Isolated {
		StartWatchdog(90 * time.Second)
	}
	e := &executor{t: t, p: p, dir: job.OutDir}
	switch job.Mode {
	case "explore", "hashes":
		explore(e, &job)
	case "replay":
		replay(e, &job)
	default:
		trouble("unknown mode %q", job.Mode)
	}
}

// Trouble reports a defect of the harness itself (never a violation) and
// ends the worker with exit status 2.
func Trouble(format string, args ...any) { trouble(format, args...) }

func trouble(format string, args ...any) {
	fmt.Fprintf(os.Stderr, "HARNESS-TROUBLE: "+format+"\n", args...)
	os.Exit(2)
}

func writeJSON(path string, v any) {
	data, err := json.MarshalIndent(v, "", " ")
	if err != nil {
		trouble("marshal %s: %v", path, err)
	}
	if err := os.WriteFile(path, data, 0o644); err != nil {
		trouble("write %s: %v", path, err)
	}
}

func explore(e *executor, job *Job) {
	p := e.p
	start := time.Now()
	res := &WorkerResult{
		Worker: job.Worker, Faults: map[string]int{}, Counters: map[string]int{}, Probes: map[string]int{},
		SiteHits: map[string]int{}, SiteParks: map[string]int{}, Policies: map[string]int{}, KnownHits: map[string]int{},
	}
	var knownKeys []string
	for _, k := range job.Known {
		if k.Property == p.ID && k.Kind == "finding" {
			knownKeys = append(knownKeys, k.Key)
		}
	}
	// a violation is a known finding if a listed key (a call site, an input
	// signature) occurs in its key
	known := func(key string) string {
		for _, k := range knownKeys {
			if k != "" && strings.Contains(key, k) {
				return k
			}
		}
		return ""
	}
	hashes := map[uint64]struct{}{}
	var hashLines []byte
	cur := filepath.Join(job.OutDir, fmt.Sprintf("current.%d", job.Worker))
	curF, _ := os.Create(cur)
	bsize := 1
	if p.Isolated {
		bsize = max(job.Batch, 1)
		if v, err := strconv.Atoi(os.Getenv("CUESIM_BATCH")); err == nil && v > 0 {
			bsize = v
		}
	}
	var queue []int
	for i := job.Worker; i < job.Runs; i += job.Workers {
		queue = append(queue, i)
	}
	for len(queue) > 0 && len(res.Violations) < job.MaxViol {
		if job.Deadline > 0 && time.Now().Unix() > job.Deadline {
			res.TimedOut = true
			break
		}
		n := min(bsize, len(queue))
		idxs := append([]int{}, queue[:n]...)
		queue = queue[n:]
		specs := make([]runSpec, n)
		for k, i := range idxs {
			specs[k] = runSpec{c: p.Gen(Mix(job.Seed, uint64(i)), job.Tier, i)}
		}
		if curF != nil {
			var b [8]byte
			binary.LittleEndian.PutUint64(b[:], uint64(idxs[0]))
			curF.WriteAt(b[:], 0)
		}
		if os.Getenv("CUESIM_DUMPCASE") != "" {
			writeJSON(filepath.Join(job.OutDir, "case.json"), specs[0].c)
		}
		outs := e.batch(specs, false)
		var derived []Derived
		for k := 0; k < len(outs) || len(derived) > 0; k++ {
			var out *Outcome
			var i int
			var c CaseI
			isDerived := k >= len(outs)
			if !isDerived {
				out, i, c = outs[k], idxs[k], specs[k].c
			} else {
				// a derived run: executed alone, accounted like any other
				if len(res.Violations) >= job.MaxViol || (job.Deadline > 0 && time.Now().Unix() > job.Deadline) {
					break
				}
				d := derived[0]
				derived = derived[1:]
				i, c = idxs[len(idxs)-1], d.Case
				specs = append(specs, runSpec{c, d.Choices})
				out = e.batch([]runSpec{{c, d.Choices}}, false)[0]
				outs = append(outs, out)
				idxs = append(idxs, i)
				res.Counters["derived-runs"]++
			}
			runSeed := Mix(job.Seed, uint64(i))
			res.Runs++
			res.Steps += int64(out.Res.Steps)
			res.SimTimeNs += int64(out.Res.SimTime)
			res.Switches += int64(out.Res.Switches)
			if out.Res.MaxParked > res.MaxParked {
				res.MaxParked = out.Res.MaxParked
			}
			if out.Res.Leaked {
				res.Leaked++
			}
			addMap(res.Faults, out.Faults)
			addMap(res.Counters, out.Counters)
			addMap(res.Probes, out.Res.Probes)
			addMap(res.SiteHits, out.Res.SiteHits)
			addMap(res.SiteParks, out.Res.SiteParks)
			res.Policies[c.SchedCfg().Policy]++
			if out.NonTrivial {
				hashes[out.Res.Hash] = struct{}{}
			}
			if os.Getenv("CUESIM_DEBUGHASH") != "" {
				fmt.Fprintf(os.Stderr, "run %d derived=%v hash=%016x steps=%d nontrivial=%v faults=%v sites=%v\n", i, isDerived, out.Res.Hash, out.Res.Steps, out.NonTrivial, out.Faults, out.Res.SiteHits)
			}
			if job.Mode == "hashes" {
				cls := ""
				if out.Res.Violation != nil {
					cls = out.Res.Violation.Class
				}
				hashLines = fmt.Appendf(hashLines, "%d %016x %d %s %s\n", i, out.Res.Hash, out.Res.Steps, cls, out.Final)
			}
			v := out.Res.Violation
			if v == nil && len(res.Samples) < 3 && out.NonTrivial && res.Runs%7 == 1 && (!p.Isolated || k == 0) {
				// re-execute with the log kept, so that the sample shows the run
				o2 := e.batch([]runSpec{{c, out.Res.Choices}}, true)[0]
				log := o2.Res.Log
				if len(log) > 60 {
					log = append(append([]string{}, log[:40]...), fmt.Sprintf("… %d more steps …", len(log)-40))
				}
				res.Samples = append(res.Samples, map[string]any{
					"run_index": i, "run_seed": runSeed, "case": c.Summary(), "steps": out.Res.Steps,
					"decisions": len(out.Res.Choices), "log_hash": fmt.Sprintf("%016x", out.Res.Hash), "faults_fired": out.Faults, "event_log": log,
				})
			}
			if v == nil && !isDerived && p.Expand != nil && job.Mode == "explore" && !p.Isolated {
				derived = append(derived, p.Expand(c, out, job.Tier)...)
			}
			if v == nil || job.Mode != "explore" {
				continue
			}
			// a violation: whatever follows in this batch ran in a process whose state may be
			// damaged; those runs are repeated in a later batch
			if p.Isolated {
				queue = append(append([]int{}, idxs[k+1:]...), queue...)
			}
			if kk := known(out.Key); kk != "" {
				res.KnownHits[kk]++
				break
			}
			var prefix []runSpec
			for q := 0; q < k && p.Isolated; q++ {
				prefix = append(prefix, runSpec{specs[q].c, nonNil(outs[q].Res.Choices)})
			}
			rp, tr := minimise(e, job, i, runSeed, prefix, c, out)
			if tr != "" {
				res.Trouble = append(res.Trouble, tr)
				break
			}
			name := fmt.Sprintf("replay-%s-%d.json", p.ID, i)
			if isDerived {
				name = fmt.Sprintf("replay-%s-%d-d%d.json", p.ID, i, k)
			}
			path := filepath.Join(job.OutDir, name)
			writeJSON(path, rp)
			res.Violations = append(res.Violations, path)
			break
		}
	}
	if curF != nil {
		curF.Close()
		os.Remove(cur)
	}
	// distinct hashes, binary
	hb := make([]byte, 0, 8*len(hashes))
	keys := make([]uint64, 0, len(hashes))
	for h := range hashes {
		keys = append(keys, h)
	}
	sort.Slice(keys, func(i, j int) bool { return keys[i] < keys[j] })
	for _, h := range keys {
		hb = binary.LittleEndian.AppendUint64(hb, h)
	}
	os.WriteFile(filepath.Join(job.OutDir, fmt.Sprintf("hashes.%d.bin", job.Worker)), hb, 0o644)
	if job.Mode == "hashes" {
		os.WriteFile(filepath.Join(job.OutDir, fmt.Sprintf("hashlines.%d.txt", job.Worker)), hashLines, 0o644)
	}
	res.NonTrivial = len(hashes)
	res.Rule, res.Real, res.Stubs = p.Rule, p.Real, p.Stubs
	res.Children = e.n
	res.WallS = time.Since(start).Seconds()
	writeJSON(filepath.Join(job.OutDir, fmt.Sprintf("result.%d.json", job.Worker)), res)
}

func nonNil(ch []uint32) []uint32 {
	if ch == nil {
		return []uint32{}
	}
	return ch
}

func replay(e *executor, job *Job) {
	p := e.p
	data, err := os.ReadFile(job.ReplayFile)
	if err != nil {
		trouble("read replay: %v", err)
	}
	var rp Replay
	if err := json.Unmarshal(data, &rp); err != nil {
		trouble("parse replay: %v", err)
	}
	var specs []runSpec
	for _, pr := range rp.Prefix {
		c := p.New()
		if err := json.Unmarshal(pr.Case, c); err != nil {
			trouble("parse prefix case: %v", err)
		}
		specs = append(specs, runSpec{c, nonNil(pr.Choices)})
	}
	c := p.New()
	if err := json.Unmarshal(rp.Case, c); err != nil {
		trouble("parse case: %v", err)
	}
	last := runSpec{c, nonNil(rp.Choices)}
	if rp.PolicyDriven {
		last.choices = nil
	}
	specs = append(specs, last)
	outs := e.batch(specs, true)
	out := outs[len(outs)-1]
	if rp.Violation != nil {
		for k := 1; k < reportTries(rp.Violation.Class) && len(outs) == len(specs) && (out.Res.Violation == nil || out.Res.Violation.Class != rp.Violation.Class); k++ {
			fmt.Printf("replay: execution %d of the recorded schedule did not produce a %s report; executing it again\n", k, rp.Violation.Class)
			outs = e.batch(specs, true)
			out = outs[len(outs)-1]
		}
	}
	res := &WorkerResult{}
	if len(outs) < len(specs) {
		fmt.Printf("replay: the process died in prefix run %d\n", len(outs)-1)
		res.Trouble = append(res.Trouble, "died in prefix")
	}
	if out.Res.Violation != nil {
		res.ReplayClass = out.Res.Violation.Class
		res.ReplayKey = out.Key
		res.ReplayOK = rp.Violation != nil && out.Res.Violation.Class == rp.Violation.Class
		fmt.Printf("replay: violation class=%s step=%d: %s\n", out.Res.Violation.Class, out.Res.Violation.Step, out.Res.Violation.Msg)
	} else {
		fmt.Printf("replay: no violation\n")
	}
	if out.Res.Violation != nil && out.Res.Violation.Class != "crash" && out.Res.Hash != rp.LogHash {
		fmt.Printf("replay: log hash %016x differs from recorded %016x\n", out.Res.Hash, rp.LogHash)
		if res.ReplayOK {
			res.Trouble = append(res.Trouble, "log hash differs")
		}
	}
	for _, l := range out.Res.Log {
		fmt.Println(l)
	}
	writeJSON(filepath.Join(job.OutDir, "result.0.json"), res)
}

// reportTries is how often a schedule is executed before a violation of the
// given class is taken not to occur under it. The schedule, and with it every
// memory access, is the same in each execution; whether the Go race detector
// *reports* a pair of unordered accesses is not: it remembers a bounded number
// of earlier accesses per memory word and evicts them pseudo-randomly (and
// addresses differ between processes). A report is never spurious, so an alarm
// needs one reporting execution; without this a genuine race was sometimes
// found and then dismissed as "did not reproduce".
func reportTries(class string) int {
	if class == "data-race" {
		return 6
	}
	return 1
}

// minimise confirms that the violation is a pure function of (prefix, case,
// decisions) and then shrinks all three while the same violation class persists.
func minimise(e *executor, job *Job, idx int, runSeed uint64, prefix []runSpec, c CaseI, out *Outcome) (*Replay, string) {
	class := out.Res.Violation.Class
	crash := class == "crash"
	deadline := time.Now().Add(time.Duration(max(job.ShrinkSecs, 5)) * time.Second)
	tries := 0
	run := func(pre []runSpec, cc CaseI, ch []uint32, keepLog bool) *Outcome {
		tries++
		outs := e.batch(append(append([]runSpec{}, pre...), runSpec{cc, ch}), keepLog)
		if len(outs) < len(pre)+1 {
			return &Outcome{} // died inside the prefix: not this violation
		}
		return outs[len(pre)]
	}
	fails := func(pre []runSpec, cc CaseI, ch []uint32) *Outcome {
		for k := 0; k < reportTries(class); k++ {
			o := run(pre, cc, ch, false)
			if o.Res.Violation != nil && o.Res.Violation.Class == class {
				return o
			}
		}
		return nil
	}
	var choices []uint32
	if !crash {
		choices = nonNil(append([]uint32{}, out.Res.Choices...))
	}
	// reproducibility first: a failure that does not replay is harness trouble, not a violation
	if o := fails(prefix, c, choices); o == nil {
		return nil, fmt.Sprintf("run %d (seed %d): violation %q did not reproduce when re-executed from the same state: suspected uncontrolled nondeterminism; the unreproduced report was: %s", idx, runSeed, class, out.Res.Violation.Msg)
	}
	// the prefix: first try without, then drop elements one at a time
	if len(prefix) > 0 {
		if o := fails(nil, c, choices); o != nil {
			prefix = nil
		} else {
			for q := 0; q < len(prefix) && time.Now().Before(deadline); {
				cand := append(append([]runSpec{}, prefix[:q]...), prefix[q+1:]...)
				if o := fails(cand, c, choices); o != nil {
					prefix = cand
				} else {
					q++
				}
			}
		}
	}
	best := c
	trim := func(ch []uint32) []uint32 {
		n := len(ch)
		for n > 0 && ch[n-1] == 0 {
			n--
		}
		return ch[:n]
	}
	progress := true
	for progress && time.Now().Before(deadline) {
		progress = false
		// structural
		for again := true; again && time.Now().Before(deadline); {
			again = false
			for _, cand := range best.Shrinks() {
				if time.Now().After(deadline) {
					break
				}
				if o := fails(prefix, cand, choices); o != nil {
					best, again, progress = cand, true, true
					if !crash {
						choices = nonNil(append([]uint32{}, o.Res.Choices...))
					}
					break
				}
				if !crash {
					if o := fails(prefix, cand, []uint32{}); o != nil {
						best, again, progress = cand, true, true
						choices = []uint32{}
						break
					}
				}
			}
		}
		if crash {
			break
		}
		// decision vector: zero blocks
		choices = trim(choices)
		for bs := (len(choices) + 1) / 2; bs >= 1 && time.Now().Before(deadline); bs /= 2 {
			for lo := 0; lo < len(choices) && time.Now().Before(deadline); lo += bs {
				hi := min(lo+bs, len(choices))
				nz := false
				for _, v := range choices[lo:hi] {
					if v != 0 {
						nz = true
					}
				}
				if !nz {
					continue
				}
				cand := append([]uint32{}, choices...)
				for i := lo; i < hi; i++ {
					cand[i] = 0
				}
				if o := fails(prefix, best, cand); o != nil {
					progress = true
					choices = trim(append([]uint32{}, o.Res.Choices...))
					if lo >= len(choices) {
						break
					}
				}
			}
			if bs == 1 {
				break
			}
		}
	}
	// final run with the log kept
	final := run(prefix, best, choices, true)
	for k := 1; k < reportTries(class) && (final.Res.Violation == nil || final.Res.Violation.Class != class); k++ {
		final = run(prefix, best, choices, true)
	}
	if final.Res.Violation == nil || final.Res.Violation.Class != class {
		return nil, fmt.Sprintf("run %d (seed %d): minimised tuple does not reproduce violation %q", idx, runSeed, class)
	}
	raw, _ := json.Marshal(best)
	log := final.Res.Log
	if len(log) > 400 {
		log = log[len(log)-400:]
	}
	rp := &Replay{
		Property: e.p.ID, Tier: job.Tier, Seed: job.Seed, RunIndex: idx, RunSeed: runSeed,
		Case: raw, Choices: nonNil(choices), PolicyDriven: crash, Violation: final.Res.Violation, Key: final.Key, LogHash: final.Res.Hash,
		Shrunk: fmt.Sprintf("%d re-executions; steps %d → %d; decisions %d → %d; prefix runs %d", tries, out.Res.Steps, final.Res.Steps, len(out.Res.Choices), len(choices), len(prefix)),
		Log:    log,
	}
	for _, pr := range prefix {
		raw, _ := json.Marshal(pr.c)
		rp.Prefix = append(rp.Prefix, PrefixRun{Case: raw, Choices: nonNil(pr.choices)})
	}
	return rp, ""
}
