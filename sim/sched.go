package sim

import (
	"fmt"
	"os"
	"runtime"
	"sort"
	"strconv"
	"strings"
	"sync"
	"sync/atomic"
	"testing"
	"testing/synctest"
	"time"

	"cuelang.org/go/internal/simhook"
)

// Kind classifies a park point; the latency policy draws delays per kind.
type Kind string

const (
	KStart   Kind = "start"   // first statement of a new goroutine
	KYield   Kind = "yield"   // plain scheduling point inside the code under test
	KWoken   Kind = "woken"   // after a sync.Cond wake-up
	KLock    Kind = "lock"    // modelled lock acquisition
	KAt      Kind = "at"      // between two file-system effects (crash point)
	KCall    Kind = "call"    // a callback / registry request issued by the code under test
	KIO      Kind = "io"      // a chunk of a transport body / a file-system read
	KRun     Kind = "run"     // a task body (tools/flow runner)
	KClient  Kind = "client"  // a client thread between two API calls
	KStalled Kind = "stalled" // parked until nothing else can run
)

// SchedConfig is the part of a replay tuple that concerns scheduling.
type SchedConfig struct {
	Policy   string  `json:"policy"`              // uniform | latency | pct | sequential
	Seed     uint64  `json:"seed"`                // decision stream seed (ignored when Choices != nil)
	Sticky   float64 `json:"sticky,omitempty"`    // uniform: probability of letting the last task continue
	PCTDepth int     `json:"pct_depth,omitempty"` // pct: number of priority change points
	PCTSpan  int     `json:"pct_span,omitempty"`  // pct: change points are drawn in [0, span)
	// LatencyMs gives per kind the [min,max] delay in simulated milliseconds.
	LatencyMs map[Kind][2]int `json:"latency_ms,omitempty"`
	// SlowTask, if non-empty, multiplies the latency of tasks whose name
	// contains it by SlowFactor (one slow peer).
	SlowTask   string `json:"slow_task,omitempty"`
	SlowFactor int    `json:"slow_factor,omitempty"`
	// AtPark is the probability that an At point is also a scheduling point.
	AtPark float64 `json:"at_park,omitempty"`
	// YieldPark is the probability that a Yield point is a scheduling point.
	YieldPark float64 `json:"yield_park,omitempty"`
	// YieldSites lists the prefixes of the Yield sites this back-end treats as
	// scheduling points; every other Yield site is ignored (the yield points
	// inside the evaluator belong to the spin back-end, and how often they
	// are reached is not a function of the seed).
	YieldSites []string `json:"yield_sites,omitempty"`
	MaxSteps   int      `json:"max_steps,omitempty"`

	// Choices, when non-nil, replaces every decision of the policy: the
	// k-th decision among n alternatives is Choices[k] mod n, and 0 once
	// the vector is exhausted. This is what a replay file carries.
	Choices []uint32 `json:"choices,omitempty"`
}

// Task is one schedulable thread of control of the system under simulation.
type Task struct {
	ID   int
	Name string
	Proc int // simulated process the task belongs to (0 = none)
	// Key orders tasks for the scheduler: the parent's key followed by the label given
	// with simhook.Label, or by the ordinal of the spawn among the parent's children.
	Key string

	gid       uint64
	ch        chan struct{}
	kind      Kind
	site      string
	detail    string
	waitRes   any
	wake      int64 // latency policy: simulated ns at which the task becomes due
	prio      int   // pct policy
	poison    bool
	exiting   bool
	done      bool
	root      bool
	parkSeq   uint64
	parks     uint64
	nextLabel string
	children  int
	// SpawnSeq is the global sequence number at which the parent executed
	// the go statement that created this task (0 for root tasks).
	SpawnSeq uint64
}

func (t *Task) String() string { return fmt.Sprintf("%s[%d]", t.Name, t.ID) }

// Event is one scheduling step as seen by step observers and the log.
type Event struct {
	Step   int
	Task   *Task
	Kind   Kind
	Site   string
	Detail string
}

// Violation is what an oracle reports.
type Violation struct {
	Class string `json:"class"` // stable identifier of the kind of violation (shrinking preserves it)
	Msg   string `json:"msg"`
	Step  int    `json:"step"`
}

func (v *Violation) Error() string { return v.Class + ": " + v.Msg }

// Sched is the bubble back-end scheduler.
type Sched struct {
	cfg SchedConfig
	rng *Rand

	mu       sync.Mutex
	byGID    map[uint64]*Task
	tasks    []*Task
	nextID   int
	pending  map[string][]*pendingSpawn
	held     map[any]*Task
	closers  map[int]map[any]func() // proc → res → closer
	deadProc map[int]bool
	last     *Task
	draining bool
	parkSeq  uint64

	k        int      // index of next decision
	rec      []uint32 // recorded decisions
	step     int
	now      int64 // simulated ns
	hash     Hash
	keepLog  bool
	log      []string
	pctAt    map[int]bool
	pctLow   int
	maxPark  int
	maxInFly int

	Probes    map[string]int
	SiteHits  map[string]int
	SiteParks map[string]int
	Switches  int

	// OnStep is called by the controller at every quiescent point, before
	// the next task is chosen. Returning a violation ends the run.
	OnStep func(s *Sched) *Violation
	// OnAt is consulted (with s.mu NOT held, on the task's goroutine) at
	// every At point of a known task; returning true kills the task's process
	// at this point.
	OnAt func(t *Task, site string, detail []string) (kill bool)
	// OnRelease is called by the controller (mutex held) just before a task is released.
	OnRelease func(ev Event)
	// StallOK reports whether tasks parked with KStalled may run: by
	// default they run only when nothing else is runnable.

	// Normalize, when set, is applied to every park detail before it is
	// logged or hashed (strips run-specific scratch paths).
	Normalize func(string) string

	viol     *Violation
	deadlock bool
	rootsWG  int
}

type pendingSpawn struct {
	key    string
	seq    uint64
	id     int
	parent *Task
	site   string
	n      int
}

// Progress is bumped at every controller step; an un-bubbled watchdog
// goroutine uses it to detect a hung run (missing lock model).
var Progress atomic.Int64

// RunActive is non-zero while a bubble is executing.
var RunActive atomic.Int32

func NewSched(cfg SchedConfig, keepLog bool) *Sched {
	s := &Sched{
		cfg:       cfg,
		rng:       NewRand(cfg.Seed),
		byGID:     map[uint64]*Task{},
		pending:   map[string][]*pendingSpawn{},
		held:      map[any]*Task{},
		closers:   map[int]map[any]func(){},
		deadProc:  map[int]bool{},
		hash:      hashInit,
		keepLog:   keepLog,
		Probes:    map[string]int{},
		SiteHits:  map[string]int{},
		SiteParks: map[string]int{},
		pctAt:     map[int]bool{},
	}
	if s.cfg.MaxSteps == 0 {
		s.cfg.MaxSteps = 200000
	}
	if cfg.Policy == "pct" && cfg.Choices == nil {
		span := cfg.PCTSpan
		if span <= 0 {
			span = 200
		}
		r := NewRand(Mix(cfg.Seed, 77))
		for i := 0; i < cfg.PCTDepth; i++ {
			s.pctAt[r.Intn(span)] = true
		}
	}
	return s
}

func goid() uint64 {
	var buf [64]byte
	n := runtime.Stack(buf[:], false)
	// "goroutine 123 ["
	b := buf[10:n]
	i := 0
	for i < len(b) && b[i] >= '0' && b[i] <= '9' {
		i++
	}
	id, _ := strconv.ParseUint(string(b[:i]), 10, 64)
	return id
}

func (s *Sched) cur() *Task {
	g := goid()
	s.mu.Lock()
	t := s.byGID[g]
	s.mu.Unlock()
	return t
}

// Cur returns the task of the calling goroutine, or nil.
func (s *Sched) Cur() *Task { return s.cur() }

// Now returns simulated time.
func (s *Sched) Now() time.Duration { return time.Duration(s.now) }

// Steps returns the number of scheduling steps taken so far.
func (s *Sched) Steps() int { return s.step }

// Seq returns a global event sequence number usable to stamp histories.
func (s *Sched) Seq() uint64 {
	s.mu.Lock()
	s.parkSeq++
	v := s.parkSeq
	s.mu.Unlock()
	return v
}

// decide returns a recorded decision in [0,n) using draw when exploring.
// Must be called with s.mu held.
func (s *Sched) decide(n int, draw func() int) int {
	var v int
	if s.cfg.Choices != nil {
		if s.k < len(s.cfg.Choices) {
			v = int(s.cfg.Choices[s.k] % uint32(n))
		}
	} else {
		v = draw()
	}
	s.k++
	s.rec = append(s.rec, uint32(v))
	return v
}

// Coin is a recorded Bernoulli decision usable by harness code running on a task.
func (s *Sched) Coin(p float64) bool {
	if p <= 0 {
		return false
	}
	s.mu.Lock()
	defer s.mu.Unlock()
	return s.decide(2, func() int {
		if s.rng.Bool(p) {
			return 1
		}
		return 0
	}) == 1
}

// Go starts a root task. It must be called from the bubble's main goroutine
// before Loop, or from a running task.
func (s *Sched) Go(name string, proc int, f func()) *Task {
	s.mu.Lock()
	t := &Task{ID: s.nextID, Name: name, Proc: proc, root: true, Key: fmt.Sprintf("%06d:%s", s.nextID, name)}
	s.nextID++
	s.tasks = append(s.tasks, t)
	s.rootsWG++
	s.mu.Unlock()
	ready := make(chan struct{})
	go func() {
		g := goid()
		s.mu.Lock()
		t.gid = g
		s.byGID[g] = t
		s.mu.Unlock()
		close(ready)
		defer func() {
			s.mu.Lock()
			t.done = true
			s.rootsWG--
			delete(s.byGID, g)
			s.mu.Unlock()
		}()
		s.park(t, KStart, "go", name, nil)
		f()
	}()
	<-ready
	return t
}

func (s *Sched) park(t *Task, kind Kind, site, detail string, res any) {
	s.mu.Lock()
	if s.draining || t.poison {
		ex := t.exiting
		t.exiting = true
		s.mu.Unlock()
		if !ex {
			runtime.Goexit()
		}
		return
	}
	ch := make(chan struct{})
	t.ch = ch
	if s.Normalize != nil {
		detail = s.Normalize(detail)
	}
	t.kind, t.site, t.detail, t.waitRes = kind, site, detail, res
	s.parkSeq++
	t.parkSeq = s.parkSeq
	s.SiteParks[site]++
	t.parks++
	if s.cfg.Policy == "latency" && s.cfg.Choices == nil {
		t.wake = s.now + s.latency(t, kind)
	}
	s.mu.Unlock()
	<-ch
	s.mu.Lock()
	p := t.poison
	if p {
		t.exiting = true
	}
	s.mu.Unlock()
	if p {
		runtime.Goexit()
	}
}

func (s *Sched) latency(t *Task, kind Kind) int64 {
	r, ok := s.cfg.LatencyMs[kind]
	if !ok {
		r = [2]int{0, 1}
	}
	// drawn from a per-task stream so that the order in which two tasks
	// reach their park points cannot change the values
	tr := NewRand(Mix(Mix(s.cfg.Seed, uint64(hashInit.Str(t.Key))), t.parks))
	us := int64(r[0])*1000 + int64(tr.Intn((r[1]-r[0])*1000+1))
	if s.cfg.SlowTask != "" && strings.Contains(t.Name+" "+t.detail, s.cfg.SlowTask) && s.cfg.SlowFactor > 1 {
		us *= int64(s.cfg.SlowFactor)
	}
	return us * 1000
}

// Park is a scheduling point for harness code (callbacks, transports,
// runners) running on a known task. Unknown goroutines pass through.
func (s *Sched) Park(kind Kind, site, detail string) {
	t := s.cur()
	if t == nil {
		return
	}
	s.mu.Lock()
	s.SiteHits[site]++
	s.mu.Unlock()
	s.park(t, kind, site, detail, nil)
}

// ---- simhook.Simulator ----

func (s *Sched) Yield(site string) {
	ok := false
	for _, p := range s.cfg.YieldSites {
		if strings.HasPrefix(site, p) {
			ok = true
		}
	}
	if !ok {
		return
	}
	t := s.cur()
	if t == nil {
		return
	}
	s.mu.Lock()
	s.SiteHits[site]++
	s.mu.Unlock()
	if s.cfg.YieldPark < 1 && !s.Coin(s.cfg.YieldPark) {
		return
	}
	s.park(t, KYield, site, "", nil)
}

func (s *Sched) Spawn(site string) simhook.Token {
	t := s.cur()
	if t == nil {
		return 0
	}
	s.mu.Lock()
	defer s.mu.Unlock()
	if s.draining {
		return 0
	}
	s.parkSeq++
	key := t.Key + "/" + site + ":"
	if t.nextLabel != "" {
		key += "=" + t.nextLabel
		t.nextLabel = ""
	} else {
		key += fmt.Sprintf("%06d", t.children)
	}
	t.children++
	p := &pendingSpawn{id: s.nextID, parent: t, site: site, seq: s.parkSeq, key: key}
	s.nextID++
	s.pending[site] = append(s.pending[site], p)
	return simhook.Token(p.id + 1)
}

func (s *Sched) Started(site string, tok simhook.Token) {
	g := goid()
	s.mu.Lock()
	if s.byGID[g] != nil {
		s.mu.Unlock()
		return
	}
	ps := s.pending[site]
	var p *pendingSpawn
	if tok != 0 {
		for i, q := range ps {
			if q.id+1 == int(tok) {
				p = q
				s.pending[site] = append(ps[:i:i], ps[i+1:]...)
				break
			}
		}
	} else if len(ps) > 0 {
		// goroutines started from one site without a token are interchangeable: take the smallest key
		best := 0
		for i, q := range ps {
			if q.key < ps[best].key {
				best = i
			}
		}
		p = ps[best]
		s.pending[site] = append(ps[:best:best], ps[best+1:]...)
	}
	if p == nil {
		s.mu.Unlock()
		return
	}
	t := &Task{ID: p.id, Name: p.parent.Name + ">" + site, Proc: p.parent.Proc, gid: g, SpawnSeq: p.seq, Key: p.key}
	s.tasks = append(s.tasks, t)
	s.byGID[g] = t
	s.mu.Unlock()
	s.park(t, KStart, site, "", nil)
}

func (s *Sched) Woken(site string, l sync.Locker) {
	t := s.cur()
	if t == nil {
		return
	}
	l.Unlock()
	s.park(t, KWoken, site, "", nil)
	l.Lock()
}

func (s *Sched) Acquire(site string, res any) {
	t := s.cur()
	if t == nil {
		return
	}
	s.mu.Lock()
	s.SiteHits[site]++
	if s.held[res] != nil {
		s.Probes["contended:"+site]++
	}
	s.mu.Unlock()
	s.park(t, KLock, site, "", res)
}

func (s *Sched) Release(site string, res any) {
	t := s.cur()
	if t == nil {
		return
	}
	s.mu.Lock()
	if s.held[res] == t {
		delete(s.held, res)
	}
	s.mu.Unlock()
}

func (s *Sched) Pick(site string, i, n int) int {
	t := s.cur()
	if t == nil || n <= 1 {
		if n <= 1 {
			return 0
		}
		return i
	}
	s.mu.Lock()
	defer s.mu.Unlock()
	if s.cfg.Policy == "sequential" && s.cfg.Choices == nil {
		return s.decide(n, func() int { return 0 })
	}
	return s.decide(n, func() int { return s.rng.Intn(n) })
}

func (s *Sched) At(site string, detail ...string) {
	t := s.cur()
	if t == nil {
		return
	}
	s.mu.Lock()
	s.SiteHits[site]++
	dr := s.draining || t.poison
	s.mu.Unlock()
	if dr {
		return
	}
	if s.OnAt != nil && s.OnAt(t, site, detail) {
		s.Kill(t.Proc)
		// Never returns from the point of view of the process: the task
		// stays parked until the run is over.
		s.park(t, KAt, site, strings.Join(detail, " "), nil)
		return
	}
	if !s.Coin(s.cfg.AtPark) {
		return
	}
	s.park(t, KAt, site, strings.Join(detail, " "), nil)
}

func (s *Sched) NoYield(delta int) {}

func (s *Sched) Label(name string) {
	t := s.cur()
	if t == nil {
		return
	}
	s.mu.Lock()
	t.nextLabel = name
	s.mu.Unlock()
}

func (s *Sched) Probe(name string) {
	s.mu.Lock()
	s.Probes[name]++
	s.mu.Unlock()
}

// ProbeN adds n to a probe counter (harness use).
func (s *Sched) ProbeN(name string, n int) {
	s.mu.Lock()
	s.Probes[name] += n
	s.mu.Unlock()
}

func (s *Sched) RegisterCloser(res any, close func()) {
	t := s.cur()
	if t == nil {
		return
	}
	s.mu.Lock()
	m := s.closers[t.Proc]
	if m == nil {
		m = map[any]func(){}
		s.closers[t.Proc] = m
	}
	m[res] = close
	s.mu.Unlock()
}

// Kill freezes every task of process proc for ever, drops the locks the
// process holds (as the kernel would on process death) and forgets its memory.
func (s *Sched) Kill(proc int) {
	s.mu.Lock()
	if s.deadProc[proc] {
		s.mu.Unlock()
		return
	}
	s.deadProc[proc] = true
	var cl []func()
	for res, c := range s.closers[proc] {
		_ = res
		cl = append(cl, c)
	}
	delete(s.closers, proc)
	for res, h := range s.held {
		if h.Proc == proc {
			delete(s.held, res)
		}
	}
	s.mu.Unlock()
	for _, c := range cl {
		c()
	}
}

// Dead reports whether proc has been killed.
func (s *Sched) Dead(proc int) bool {
	s.mu.Lock()
	defer s.mu.Unlock()
	return s.deadProc[proc]
}

// Fail records a violation found by harness code running on a task.
func (s *Sched) Fail(class, format string, args ...any) {
	s.mu.Lock()
	if s.viol == nil {
		s.viol = &Violation{Class: class, Msg: fmt.Sprintf(format, args...), Step: s.step}
	}
	s.mu.Unlock()
}

// Logf appends a line to the event log (and hash) — harness observations.
func (s *Sched) Logf(format string, args ...any) {
	msg := fmt.Sprintf(format, args...)
	s.mu.Lock()
	s.hash = s.hash.Str(msg)
	if s.keepLog {
		s.log = append(s.log, fmt.Sprintf("      · %s", msg))
	}
	s.mu.Unlock()
}

func (s *Sched) runnable() (cands []*Task, stalled []*Task) {
	for _, t := range s.tasks {
		if t.ch == nil || t.done {
			continue
		}
		if t.Proc != 0 && s.deadProc[t.Proc] {
			continue
		}
		if t.waitRes != nil && s.held[t.waitRes] != nil {
			continue
		}
		if t.kind == KStalled {
			stalled = append(stalled, t)
			continue
		}
		cands = append(cands, t)
	}
	sort.Slice(cands, func(i, j int) bool { return cands[i].Key < cands[j].Key })
	sort.Slice(stalled, func(i, j int) bool { return stalled[i].Key < stalled[j].Key })
	return
}

// Result summarises one simulated run.
type Result struct {
	Violation *Violation
	Deadlock  bool
	Steps     int
	Choices   []uint32
	Hash      uint64
	SimTime   time.Duration
	MaxParked int
	Log       []string
	Probes    map[string]int
	SiteHits  map[string]int
	SiteParks map[string]int
	Switches  int
	Leaked    bool
}

// Loop is the controller: it must run on the bubble's main goroutine.
// It returns when every root task has finished and nothing is parked, when a
// violation was found, or when nothing can run (deadlock).
func (s *Sched) Loop() {
	for {
		synctest.Wait()
		Progress.Add(1)
		s.mu.Lock()
		if s.viol != nil {
			s.mu.Unlock()
			return
		}
		if s.OnStep != nil {
			s.mu.Unlock()
			v := s.OnStep(s)
			// the observer may have started tasks (a process restarted after a kill):
			// they must have reached their first park point before candidates are collected
			synctest.Wait()
			s.mu.Lock()
			if v != nil {
				v.Step = s.step
				s.viol = v
				s.mu.Unlock()
				return
			}
		}
		cands, stalled := s.runnable()
		if len(cands) == 0 {
			cands = stalled
		}
		if n := len(cands) + len(stalled); n > s.maxPark {
			s.maxPark = n
		}
		if len(cands) == 0 {
			if s.rootsWG > 0 {
				// Roots of dead processes never finish; anything else is a deadlock.
				live := 0
				for _, t := range s.tasks {
					if t.root && !t.done && !(t.Proc != 0 && s.deadProc[t.Proc]) {
						live++
					}
				}
				if live > 0 {
					s.deadlock = true
				}
			}
			s.mu.Unlock()
			return
		}
		if s.step >= s.cfg.MaxSteps {
			s.viol = &Violation{Class: "step-budget", Msg: fmt.Sprintf("no termination within %d steps", s.cfg.MaxSteps), Step: s.step}
			s.mu.Unlock()
			return
		}
		idx := s.choose(cands)
		t := cands[idx]
		if t.waitRes != nil {
			s.held[t.waitRes] = t
			t.waitRes = nil
		}
		if s.cfg.Policy == "latency" && s.cfg.Choices == nil && t.wake > s.now {
			s.now = t.wake
		}
		if s.last != nil && s.last != t && s.last.ch != nil {
			s.Switches++
		}
		s.last = t
		ch := t.ch
		t.ch = nil
		s.hash = s.hash.Str(t.Key).Str(t.site).Str(t.detail)
		if s.keepLog {
			s.log = append(s.log, fmt.Sprintf("%5d %-26s %-7s %s %s", s.step, t.Name, t.kind, t.site, t.detail))
		}
		if s.OnRelease != nil {
			s.OnRelease(Event{Step: s.step, Task: t, Kind: t.kind, Site: t.site, Detail: t.detail})
		}
		s.step++
		s.mu.Unlock()
		close(ch)
	}
}

func (s *Sched) choose(cands []*Task) int {
	n := len(cands)
	switch {
	case s.cfg.Choices != nil:
		return s.decide(n, nil)
	case s.cfg.Policy == "sequential":
		return s.decide(n, func() int { return 0 })
	case s.cfg.Policy == "latency":
		return s.decide(n, func() int {
			best := 0
			for i, t := range cands {
				b := cands[best]
				if t.wake < b.wake || (t.wake == b.wake && t.Key < b.Key) {
					best = i
				}
			}
			return best
		})
	case s.cfg.Policy == "pct":
		return s.decide(n, func() int {
			for _, t := range cands {
				if t.prio == 0 {
					t.prio = 1000 + NewRand(Mix(s.cfg.Seed, uint64(hashInit.Str(t.Key))+5000)).Intn(1000000)
				}
			}
			best := 0
			for i, t := range cands {
				if t.prio > cands[best].prio {
					best = i
				}
			}
			if s.pctAt[s.step] {
				s.pctLow++
				cands[best].prio = 1000 - s.pctLow
				best = 0
				for i, t := range cands {
					if t.prio > cands[best].prio {
						best = i
					}
				}
			}
			return best
		})
	default: // uniform
		return s.decide(n, func() int {
			if s.cfg.Sticky > 0 && s.last != nil && s.rng.Bool(s.cfg.Sticky) {
				for i, t := range cands {
					if t == s.last {
						return i
					}
				}
			}
			return s.rng.Intn(n)
		})
	}
}

// drain releases every parked task with a poison that makes it exit, so
// that the bubble can close. Hooks are inert from now on.
func (s *Sched) drain() (leaked bool) {
	s.mu.Lock()
	s.draining = true
	s.mu.Unlock()
	for i := 0; i < 10000; i++ {
		synctest.Wait()
		s.mu.Lock()
		var chs []chan struct{}
		for _, t := range s.tasks {
			if t.ch != nil {
				t.poison = true
				chs = append(chs, t.ch)
				t.ch = nil
			}
		}
		// release every modelled lock: their holders are going away
		for res := range s.held {
			delete(s.held, res)
		}
		s.mu.Unlock()
		if len(chs) == 0 {
			return false
		}
		for _, ch := range chs {
			close(ch)
		}
	}
	return true
}

// RunBubble executes setup and then the controller inside one synctest
// bubble, with s attached to the simhook seams. post runs on the
// controller goroutine after the loop and before parked tasks are drained
// (the judged state is the one the last step left behind).
func RunBubble(t *testing.T, s *Sched, setup func(), post func()) (res Result) {
	RunActive.Store(1)
	defer RunActive.Store(0)
	simhook.Attach(s)
	defer simhook.Attach(nil)
	func() {
		defer func() {
			if r := recover(); r != nil {
				msg := fmt.Sprint(r)
				if strings.Contains(msg, "deadlock:") {
					// Goroutines of killed processes (or of a run that was cut short) that are
					// blocked on primitives the simulator does not own. Expected; they are leaked.
					res.Leaked = true
					return
				}
				panic(r)
			}
		}()
		synctest.Test(t, func(t *testing.T) {
			setup()
			s.Loop()
			if post != nil && s.viol == nil && !s.deadlock {
				post()
			}
			s.drain()
		})
	}()
	res.Violation = s.viol
	res.Deadlock = s.deadlock
	if s.deadlock && res.Violation == nil {
		var where []string
		for _, t := range s.tasks {
			if !t.done {
				where = append(where, fmt.Sprintf("%s@%s", t.Name, t.site))
			}
		}
		res.Violation = &Violation{Class: "deadlock", Msg: "nothing runnable, workload not finished: " + strings.Join(where, ", "), Step: s.step}
	}
	res.Steps = s.step
	res.Choices = s.rec
	res.Hash = uint64(s.hash)
	res.SimTime = time.Duration(s.now)
	res.MaxParked = s.maxPark
	res.Log = s.log
	res.Probes = s.Probes
	res.SiteHits = s.SiteHits
	res.SiteParks = s.SiteParks
	res.Switches = s.Switches
	return res
}

// StartWatchdog starts an un-bubbled goroutine that aborts the process with
// exit status 2 when a run makes no progress for d of wall-clock time.
func StartWatchdog(d time.Duration) {
	go func() {
		last := Progress.Load()
		lastChange := time.Now()
		for {
			time.Sleep(2 * time.Second)
			cur := Progress.Load()
			if cur != last || RunActive.Load() == 0 {
				last = cur
				lastChange = time.Now()
				continue
			}
			if time.Since(lastChange) > d {
				buf := make([]byte, 1<<20)
				n := runtime.Stack(buf, true)
				fmt.Fprintf(os.Stderr, "HARNESS-TROUBLE: watchdog: no scheduler progress for %v (missing lock model?)\n%s\n", d, buf[:n])
				os.Exit(2)
			}
		}
	}()
}
