// Package sim is the deterministic simulator ("cuesim") used by every
// check in /verif: a seeded PRNG, a scheduler that owns every interleaving
// decision of the code under test through the hooks of
// cuelang.org/go/internal/simhook, the replay-file format, a shrinker and
// the worker/driver protocol.
package sim

// Rand is a splitmix64 generator. It is the only source of randomness in the
// simulator; math/rand is never used.
type Rand struct{ s uint64 }

func NewRand(seed uint64) *Rand { return &Rand{s: seed} }

func (r *Rand) Uint64() uint64 {
	r.s += 0x9e3779b97f4a7c15
	z := r.s
	z = (z ^ (z >> 30)) * 0xbf58476d1ce4e5b9
	z = (z ^ (z >> 27)) * 0x94d049bb133111eb
	return z ^ (z >> 31)
}

// Mix derives an independent seed from a seed and an index.
func Mix(seed, i uint64) uint64 {
	r := Rand{s: seed ^ (i+1)*0xd6e8feb86659fd93}
	r.Uint64()
	return r.Uint64()
}

func (r *Rand) Intn(n int) int {
	if n <= 1 {
		return 0
	}
	return int(r.Uint64() % uint64(n))
}

// Range returns a value in [lo, hi].
func (r *Rand) Range(lo, hi int) int {
	if hi <= lo {
		return lo
	}
	return lo + r.Intn(hi-lo+1)
}

func (r *Rand) Float() float64 { return float64(r.Uint64()>>11) / (1 << 53) }

func (r *Rand) Bool(p float64) bool { return r.Float() < p }

func (r *Rand) Perm(n int) []int {
	p := make([]int, n)
	for i := range p {
		p[i] = i
	}
	for i := n - 1; i > 0; i-- {
		j := r.Intn(i + 1)
		p[i], p[j] = p[j], p[i]
	}
	return p
}

func Shuffle[T any](r *Rand, xs []T) {
	for i := len(xs) - 1; i > 0; i-- {
		j := r.Intn(i + 1)
		xs[i], xs[j] = xs[j], xs[i]
	}
}

func Choose[T any](r *Rand, xs []T) T { return xs[r.Intn(len(xs))] }

// Hash is an incremental FNV-1a style 64-bit hash used for event logs.
type Hash uint64

const hashInit Hash = 14695981039346656037

func (h Hash) Str(s string) Hash {
	for i := 0; i < len(s); i++ {
		h ^= Hash(s[i])
		h *= 1099511628211
	}
	h ^= 0xff
	h *= 1099511628211
	return h
}

func (h Hash) Int(v uint64) Hash {
	for i := 0; i < 8; i++ {
		h ^= Hash(v & 0xff)
		h *= 1099511628211
		v >>= 8
	}
	return h
}
