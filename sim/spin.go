package sim

import (
	"fmt"
	"os"
	"runtime"
	"sync"
	"time"

	"cuelang.org/go/internal/simhook"
)

// The spin back-end: a turn-based scheduler whose hand-off creates no
// happens-before edge, so that the race detector still sees the tasks as
// concurrent although exactly one of them runs at any time.
//
// A parked task spins on a plain word (for turn != me { runtime.Gosched() }).
// Every piece of scheduler state, including the PRNG, lives in //go:norace
// functions and uses no maps, channels, mutexes or atomics (all of which the
// race detector instruments or treats as synchronisation).

const maxSpinTasks = 64
const maxSites = 256

// SpinConfig is the scheduling part of a spin-back-end replay tuple.
type SpinConfig struct {
	Policy   string   `json:"policy"` // uniform | pct | sequential
	Seed     uint64   `json:"seed"`
	SwitchP  float64  `json:"switch_p,omitempty"`  // uniform: probability of a context switch at a yield point
	PCTDepth int      `json:"pct_depth,omitempty"` // pct: number of priority change points
	PCTSpan  int      `json:"pct_span,omitempty"`  // pct: change points are drawn in [0, span) yields
	Choices  []uint32 `json:"choices,omitempty"`   // replay: k-th decision (0 = stay with the running task)
	// HotSites are yield sites (rare branches: cache misses, lock upgrades) at
	// which a switch happens with probability HotP whatever the policy.
	HotSites []string `json:"hot_sites,omitempty"`
	HotP     float64  `json:"hot_p,omitempty"`
}

// Spin is the scheduler object; it implements simhook.Simulator.
type Spin struct {
	cfg      SpinConfig
	replay   bool
	turn     int32
	n        int32
	gids     [maxSpinTasks]uint64
	done     [maxSpinTasks]bool
	noYield  [maxSpinTasks]int32
	prio     [maxSpinTasks]int64
	nreg     int32
	rng      uint64
	k        int
	rec      []uint32
	yields   int64
	switches int64
	progress int64
	pctAt    [8]int64
	pctLow   int64

	nsites       int
	siteNames    [maxSites]string
	siteYields   [maxSites]int64
	siteSwitches [maxSites]int64
	trace        []byte
	nprobes      int
	probeNames   [maxSites]string
	probeCounts  [maxSites]int64
}

//go:norace
func (s *Spin) next() uint64 {
	s.rng += 0x9e3779b97f4a7c15
	z := s.rng
	z = (z ^ (z >> 30)) * 0xbf58476d1ce4e5b9
	z = (z ^ (z >> 27)) * 0x94d049bb133111eb
	return z ^ (z >> 31)
}

//go:norace
func NewSpin(cfg SpinConfig, n int) *Spin {
	if n > maxSpinTasks {
		panic("too many spin tasks")
	}
	s := &Spin{cfg: cfg, n: int32(n), turn: -1, rng: cfg.Seed, replay: cfg.Choices != nil}
	s.rec = make([]uint32, 0, 4096)
	for i := 0; i < n; i++ {
		s.prio[i] = 1000 + int64(s.next()%1000000)
	}
	span := cfg.PCTSpan
	if span <= 0 {
		span = 2000
	}
	for i := 0; i < len(s.pctAt); i++ {
		s.pctAt[i] = -1
		if i < cfg.PCTDepth {
			s.pctAt[i] = int64(s.next() % uint64(span))
		}
	}
	return s
}

//go:norace
func spinGoid() uint64 {
	var buf [40]byte
	n := runtime.Stack(buf[:], false)
	var id uint64
	for i := 10; i < n; i++ {
		c := buf[i]
		if c < '0' || c > '9' {
			break
		}
		id = id*10 + uint64(c-'0')
	}
	return id
}

// me identifies the calling task. Exactly one task runs at any time — the
// one whose turn it is — and while a run is active no other goroutine
// executes code that contains hooks, so the caller is the turn holder.
//
//go:norace
func (s *Spin) me() int32 {
	if s.turn < 0 {
		return -1
	}
	return s.turn
}

// Enter registers the calling goroutine as task i and waits for its first turn.
//
//go:norace
func (s *Spin) Enter(i int) {
	s.nreg++
	for s.turn != int32(i) {
		runtime.Gosched()
	}
}

// Start lets the first task run once all have entered. Called by the main goroutine.
//
//go:norace
func (s *Spin) Start() {
	for s.nreg < s.n {
		runtime.Gosched()
	}
	s.turn = s.pickFrom(-1)
}

// pickFrom records a decision among the tasks that are not done; cur (if
// >= 0 and not done) is candidate 0, so that decision 0 means "no switch".
//
//go:norace
func (s *Spin) pickFrom(cur int32) int32 { return s.pickAt(cur, false) }

//go:norace
func (s *Spin) pickAt(cur int32, hot bool) int32 {
	var cands [maxSpinTasks]int32
	nc := 0
	if cur >= 0 && !s.done[cur] {
		cands[nc] = cur
		nc++
	}
	for i := int32(0); i < s.n; i++ {
		if i != cur && !s.done[i] {
			cands[nc] = i
			nc++
		}
	}
	if nc == 0 {
		return -2
	}
	var v int
	switch {
	case s.replay:
		if s.k < len(s.cfg.Choices) {
			v = int(s.cfg.Choices[s.k] % uint32(nc))
		}
	case s.cfg.Policy == "sequential":
		v = 0
	case hot && nc > 1 && cur >= 0 && !s.done[cur] && float64(s.next()>>11)/(1<<53) < s.cfg.HotP:
		v = 1 + int(s.next()%uint64(nc-1))
	case s.cfg.Policy == "pct":
		for j := 0; j < len(s.pctAt); j++ {
			if s.pctAt[j] == s.yields && cur >= 0 {
				s.pctLow++
				s.prio[cur] = 1000 - s.pctLow
			}
		}
		best := 0
		for j := 1; j < nc; j++ {
			if s.prio[cands[j]] > s.prio[cands[best]] {
				best = j
			}
		}
		v = best
	default: // uniform
		if cur < 0 || s.done[cur] {
			v = int(s.next() % uint64(nc))
		} else if nc > 1 && float64(s.next()>>11)/(1<<53) < s.cfg.SwitchP {
			v = 1 + int(s.next()%uint64(nc-1))
		}
	}
	s.k++
	s.rec = append(s.rec, uint32(v))
	return cands[v]
}

//go:norace
func (s *Spin) site(name string) int {
	for i := 0; i < s.nsites; i++ {
		if s.siteNames[i] == name {
			return i
		}
	}
	if s.nsites < maxSites {
		s.siteNames[s.nsites] = name
		s.nsites++
		return s.nsites - 1
	}
	return maxSites - 1
}

var spinIgnoredSites = [...]string{"runtime.IndexToString", "IndexToString:", ":adt.get:"}

//go:norace
func spinContains(s, sub string) bool {
	for i := 0; i+len(sub) <= len(s); i++ {
		if s[i:i+len(sub)] == sub {
			return true
		}
	}
	return false
}

//go:norace
func (s *Spin) Yield(site string) {
	me := s.me()
	if me < 0 || s.turn != me {
		return
	}
	s.progress++
	if s.noYield[me] > 0 {
		return
	}
	// Not decision points, because how often they are reached is not a function
	// of the seed: label-to-string conversions happen inside sort comparisons over
	// Go map iteration results, and the regexp memoizer of the evaluator
	// (adt/weakmap.go) misses whenever the garbage collector has cleared its weak
	// pointer. The locks and map operations there are exercised all the same.
	for _, ig := range spinIgnoredSites {
		if spinContains(site, ig) {
			return
		}
	}
	idx := s.site(site)
	s.siteYields[idx]++
	s.yields++
	if spinTrace {
		s.trace = append(s.trace, byte('A'+me), byte('a'+idx))
	}
	hot := false
	for _, h := range s.cfg.HotSites {
		if h == site {
			hot = true
		}
	}
	next := s.pickAt(me, hot)
	if next == me {
		return
	}
	s.siteSwitches[idx]++
	s.switches++
	s.turn = next
	for s.turn != me {
		runtime.Gosched()
	}
}

// Exit marks the calling task finished and hands the turn on.
//
//go:norace
func (s *Spin) Exit(i int) {
	s.done[i] = true
	s.progress++
	s.turn = s.pickFrom(int32(i))
}

//go:norace
func (s *Spin) NoYield(delta int) {
	me := s.me()
	if me < 0 {
		return
	}
	s.noYield[me] += int32(delta)
}

//go:norace
func (s *Spin) Probe(name string) {
	if s.me() < 0 {
		return
	}
	for i := 0; i < s.nprobes; i++ {
		if s.probeNames[i] == name {
			s.probeCounts[i]++
			return
		}
	}
	if s.nprobes < maxSites {
		s.probeNames[s.nprobes] = name
		s.probeCounts[s.nprobes] = 1
		s.nprobes++
	}
}

// The remaining seams are not used by code that runs under this back-end.
func (s *Spin) Spawn(site string) simhook.Token      { return 0 }
func (s *Spin) Started(site string, t simhook.Token) {}
func (s *Spin) Woken(site string, l sync.Locker)     {}
func (s *Spin) Acquire(site string, res any)         {}
func (s *Spin) Release(site string, res any)         {}
func (s *Spin) Pick(site string, i, n int) int       { return i }
func (s *Spin) At(site string, detail ...string)     {}
func (s *Spin) RegisterCloser(res any, close func()) {}
func (s *Spin) Label(name string)                    {}

// SpinResult summarises one run of the spin back-end.
type SpinResult struct {
	Choices      []uint32
	Yields       int64
	Switches     int64
	SiteYields   map[string]int
	SiteSwitches map[string]int
	Probes       map[string]int
	Hash         uint64
}

// Result must be called after every task has exited and a real
// synchronisation (WaitGroup) has ordered their exit before the caller.
//
//go:norace
func (s *Spin) Result() SpinResult {
	r := SpinResult{Choices: s.rec, Yields: s.yields, Switches: s.switches, SiteYields: map[string]int{}, SiteSwitches: map[string]int{}, Probes: map[string]int{}}
	h := hashInit
	for i := 0; i < s.nsites; i++ {
		r.SiteYields[s.siteNames[i]] = int(s.siteYields[i])
		r.SiteSwitches[s.siteNames[i]] = int(s.siteSwitches[i])
	}
	for i := 0; i < s.nprobes; i++ {
		r.Probes[s.probeNames[i]] = int(s.probeCounts[i])
	}
	// the schedule is identified by where the switches happened
	for i, c := range s.rec {
		if c != 0 {
			h = h.Int(uint64(i)).Int(uint64(c))
		}
	}
	h = h.Int(uint64(len(s.rec)))
	r.Hash = uint64(h)
	return r
}

var spinTrace = os.Getenv("CUESIM_SPINTRACE") != ""

// Trace returns the recorded (task, site) sequence when CUESIM_SPINTRACE is set.
//
//go:norace
func (s *Spin) Trace() (string, []string) { return string(s.trace), s.siteNames[:s.nsites] }

//go:norace
func (s *Spin) progressNow() int64 { return s.progress }

// RunSpin executes the n task bodies under the spin scheduler.
func RunSpin(cfg SpinConfig, bodies []func()) SpinResult {
	s := NewSpin(cfg, len(bodies))
	simhook.Attach(s)
	RunActive.Store(1)
	stop := make(chan struct{})
	go func() { // watchdog, fed by the scheduler's progress counter
		last, lastChange := int64(-1), time.Now()
		for {
			select {
			case <-stop:
				return
			case <-time.After(2 * time.Second):
			}
			cur := s.progressNow()
			if cur != last {
				last, lastChange = cur, time.Now()
			} else if time.Since(lastChange) > 120*time.Second {
				buf := make([]byte, 1<<20)
				n := runtime.Stack(buf, true)
				fmt.Fprintf(os.Stderr, "HARNESS-TROUBLE: spin watchdog: no yield for 120s (a real lock is held across a yield point?)\n%s\n", buf[:n])
				os.Exit(2)
			}
		}
	}()
	var wg sync.WaitGroup
	for i, body := range bodies {
		wg.Add(1)
		go func() {
			defer wg.Done()
			s.Enter(i)
			defer s.Exit(i)
			body()
		}()
	}
	s.Start()
	wg.Wait()
	close(stop)
	RunActive.Store(0)
	simhook.Attach(nil)
	if spinTrace {
		tr, names := s.Trace()
		os.WriteFile(fmt.Sprintf("%s.%d", os.Getenv("CUESIM_SPINTRACE"), os.Getpid()), []byte(fmt.Sprintf("%v\n%s\n", names, tr)), 0o644)
	}
	return s.Result()
}
