// Command driver builds the simulation workers from /repo's current working
// tree, fans seeds out over OS processes, merges their statistics, confirms
// and reports violations, and writes the evidence files.
//
//	driver <id> quick|thorough
//	driver <id> --replay <file>
//	driver selftest [<id>...]
//	driver build
//
// Exit status: 0 = the property held on everything explored; 1 = at least
// one "VIOLATION property=<id> replay=<path>" line; 2 = harness trouble.
package main

import (
	"encoding/binary"
	"encoding/json"
	"fmt"
	"os"
	"os/exec"
	"path/filepath"
	"runtime"
	"sort"
	"strconv"
	"strings"
	"sync"
	"time"

	"cuelang.org/go/verifsim/autoyield"
	"cuelang.org/go/verifsim/sim"
)

const root = "/verif"

type tierCfg struct {
	Runs    int
	Budget  time.Duration // wall-clock cap for the exploration phase
	Workers int
}

type propCfg struct {
	ID        string
	Pkg       string
	Race      bool
	Level     string
	Quick     tierCfg
	Thorough  tierCfg
	Real      []string
	Stubs     []string
	Rule      string
	Assume    []string
	GoMaxProc string
	Batch     int // isolated properties: runs per fresh child process
	// OrderResidual: the event log (not the outcome) may differ between executions of one
	// run index because the code under test starts goroutines while ranging over a Go map
	// (modload.spotCheckRoots); the self-test then requires equal outcomes only and reports
	// how many run indices had differing logs.
	OrderResidual bool
	// AutoYield: packages of /repo (relative import paths) whose files get a scheduling
	// point in front of every sync and sync/atomic operation when the worker is built
	// (autoyield package; go build -overlay, /repo itself is not touched).
	AutoYield   []string
	AutoExclude []string
}

var autoResults = map[string]*autoyield.Result{}

var props = map[string]*propCfg{
	"C19": {
		ID: "C19", Pkg: "./c19/", Level: "exploration", Race: true, Batch: 8,
		AutoYield:   []string{"cue/...", "internal/...", ""},
		AutoExclude: []string{"internal/simhook", "internal/par", "internal/mod/...", "internal/encoding/...", "internal/task", "internal/cueversion", "cue/load/...", "cue/interpreter/..."},
		Quick:    tierCfg{Runs: 3000, Budget: 300 * time.Second, Workers: 16},
		Thorough: tierCfg{Runs: 600000, Budget: 45 * time.Minute, Workers: 16},
		Assume: []string{
			"context switches happen at the simhook yield points (Vertex.unify, label interning, builtin/instance index, type caches) and in front of every sync and sync/atomic operation of the cue and internal packages as they are in the tree being checked (inserted at build time through go build -overlay; listed under coverage.auto_yield); the race detector covers memory-level races between any two accesses that both happen in a run, wherever the switches were",
			"the sequential reference is computed after the concurrent phase on a fresh context in the same process (label indexes are process-global)",
			"GOMAXPROCS=1 inside the worker; the hand-off between tasks creates no happens-before edge",
		},
	},
	"C17": {
		ID: "C17", Pkg: "./c17/", Level: "exploration", OrderResidual: true,
		Quick:    tierCfg{Runs: 5000, Budget: 240 * time.Second, Workers: 16},
		Thorough: tierCfg{Runs: 800000, Budget: 45 * time.Minute, Workers: 16},
		Assume: []string{
			"the registry and all file systems are in-memory stubs; error texts of the real registry are not modelled",
			"the module-file round-trip clause (Parse(Format(f)) = f, unknown fields rejected) is a pure function and is exercised only in so far as every tidy result is formatted, re-parsed and tidied again",
			"memory-level races inside the loader are not visible to this back-end (DESIGN §7)",
		},
	},
	"C16": {
		ID: "C16", Pkg: "./c16/", Level: "fault_enumeration",
		Quick:    tierCfg{Runs: 4000, Budget: 240 * time.Second, Workers: 16},
		Thorough: tierCfg{Runs: 600000, Budget: 45 * time.Minute, Workers: 16},
		Assume: []string{
			"crash = process kill: completed system calls stay on disk, memory and locks of the process are gone; power loss (lost un-synced writes, rename reordering) is not modelled — the statement does not promise it and the code never calls fsync",
			"the wire is simulated below ociclient (http.RoundTripper); everything above it, the file system and flock are real",
			"crash points are the simhook.At sites in mod/modcache and mod/modzip.Unzip plus every chunk boundary of a response body",
		},
	},
	"C18": {
		ID: "C18", Pkg: "./c18/", Level: "exploration",
		Quick:    tierCfg{Runs: 8000, Budget: 200 * time.Second, Workers: 16},
		Thorough: tierCfg{Runs: 2000000, Budget: 40 * time.Minute, Workers: 16},
		Assume: []string{
			"task runners are synthetic (they park in the simulator and fill a unique function of the inputs they saw); the pkg/tool/* runners are out of scope",
			"interleavings are decided at task-goroutine start and at the runner's park point; the controller goroutine runs between quiescent points without preemption",
			"the reference model of the generated workflow (which edges are mandatory under which flow.Config) is correct",
		},
	},
	"C14": {
		ID: "C14", Pkg: "./c14/", Level: "exploration",
		Quick:    tierCfg{Runs: 24000, Budget: 150 * time.Second, Workers: 16},
		Thorough: tierCfg{Runs: 4000000, Budget: 40 * time.Minute, Workers: 16},
		Real:     []string{"internal/mod/mvs (BuildList, Req, UpgradeAll, Upgrade, Downgrade, Graph)", "internal/par (Work, Queue, Cache)", "mod/module.Versions + internal/mod/semver", "internal/mod/modrequirements (Requirements.Graph/readModGraph)", "mod/modfile.Parse"},
		Stubs:    []string{"requirement graph (in-memory mvs.Reqs / modrequirements.Registry with parking callbacks)"},
		Assume: []string{
			"interleavings are explored at hook/park points only (callbacks, goroutine start, Cond wake-up, par.Cache lock); memory-level races inside mvs.buildList are not visible to this back-end (DESIGN §7)",
			"the brute-force oracle (least fixpoint + independent SemVer 2.0 comparator) is correct",
		},
	},
}

func goBin() string {
	cands := []string{
		filepath.Join(os.Getenv("HOME"), "go/pkg/mod/golang.org/toolchain@v0.0.1-go1.25.0.linux-amd64/bin/go"),
		"/root/go/pkg/mod/golang.org/toolchain@v0.0.1-go1.25.0.linux-amd64/bin/go",
	}
	for _, c := range cands {
		if _, err := os.Stat(c); err == nil {
			return c
		}
	}
	if p, err := exec.LookPath("go1.26.8"); err == nil {
		return p
	}
	return "go"
}

func goEnv() []string {
	env := os.Environ()
	env = append(env, "GOFLAGS=-mod=mod", "GOPROXY=off", "GOSUMDB=off", "GOTOOLCHAIN=local", "CGO_ENABLED=1")
	return env
}

func trouble(format string, args ...any) {
	fmt.Printf("HARNESS-TROUBLE: "+format+"\n", args...)
	os.Exit(2)
}

func buildWorker(p *propCfg) string {
	os.MkdirAll(filepath.Join(root, "bin"), 0o755)
	// go.sum must cover /repo's dependencies: refresh from the working tree
	if data, err := os.ReadFile("/repo/go.sum"); err == nil {
		own, _ := os.ReadFile(filepath.Join(root, "go.sum.extra"))
		os.WriteFile(filepath.Join(root, "go.sum"), append(data, own...), 0o644)
	}
	bin := filepath.Join(root, "bin", p.ID+".test")
	args := []string{"test", "-c", "-tags", "verif", "-vet=off", "-o", bin}
	if p.Race {
		args = append(args, "-race")
	}
	if len(p.AutoYield) > 0 {
		res, err := autoyield.Instrument(goBin(), goEnv(), root, p.Pkg, "verif", "cuelang.org/go", p.AutoYield, p.AutoExclude,
			filepath.Join(root, "out", "overlay", p.ID))
		if err != nil {
			trouble("instrumenting the synchronisation operations of /repo for %s failed: %v", p.ID, err)
		}
		autoResults[p.ID] = res
		args = append(args, "-overlay", res.Overlay)
	}
	args = append(args, p.Pkg)
	cmd := exec.Command(goBin(), args...)
	cmd.Dir = root
	cmd.Env = goEnv()
	out, err := cmd.CombinedOutput()
	if err != nil {
		trouble("building the %s worker from /repo failed: %v\n%s", p.ID, err, out)
	}
	return bin
}

func loadKnown() []sim.KnownFinding {
	data, err := os.ReadFile(filepath.Join(root, "known-findings.json"))
	if err != nil {
		return nil
	}
	var k struct {
		Findings []sim.KnownFinding `json:"findings"`
	}
	if err := json.Unmarshal(data, &k); err != nil {
		trouble("known-findings.json: %v", err)
	}
	return k.Findings
}

type workerExit struct {
	idx    int
	err    error
	stderr string
}

func runWorker(bin string, job *sim.Job, p *propCfg, extraEnv ...string) workerExit {
	jobPath := filepath.Join(job.OutDir, fmt.Sprintf("job.%d.json", job.Worker))
	data, _ := json.Marshal(job)
	os.WriteFile(jobPath, data, 0o644)
	cmd := exec.Command(bin, "-test.run", "^TestWorker$", "-test.timeout", "0", "-test.count", "1")
	cmd.Dir = job.OutDir
	cmd.Env = append(os.Environ(), "CUESIM_JOB="+jobPath)
	if p.Race {
		rl := filepath.Join(job.OutDir, fmt.Sprintf("race.%d", job.Worker))
		cmd.Env = append(cmd.Env, "CUESIM_RACELOG="+rl, "GORACE=log_path="+rl+" halt_on_error=0 history_size=3 atexit_sleep_ms=0", "GOMAXPROCS=1")
	}
	cmd.Env = append(cmd.Env, extraEnv...)
	var sb, so strings.Builder
	cmd.Stderr = &sb
	cmd.Stdout = &so
	err := cmd.Run()
	os.WriteFile(filepath.Join(job.OutDir, fmt.Sprintf("stdout.%d.txt", job.Worker)), []byte(so.String()), 0o644)
	os.WriteFile(filepath.Join(job.OutDir, fmt.Sprintf("stderr.%d.txt", job.Worker)), []byte(sb.String()), 0o644)
	return workerExit{idx: job.Worker, err: err, stderr: sb.String() + so.String()}
}

func seedFromEnv() uint64 {
	if s := os.Getenv("VERIF_SEED"); s != "" {
		if v, err := strconv.ParseUint(s, 10, 64); err == nil {
			return v
		}
		if v, err := strconv.ParseInt(s, 10, 64); err == nil {
			return uint64(v)
		}
	}
	return 20260923
}

func main() {
	if len(os.Args) < 2 {
		fmt.Println("usage: check <id> quick|thorough | check <id> --replay <file> | check selftest [ids] | check build")
		os.Exit(2)
	}
	switch os.Args[1] {
	case "build":
		for _, id := range sortedIDs() {
			buildWorker(props[id])
			fmt.Printf("built worker for %s\n", id)
		}
		return
	case "selftest":
		ids := os.Args[2:]
		if len(ids) == 0 {
			ids = sortedIDs()
		}
		ok := true
		for _, id := range ids {
			if !selftest(props[id], selftestN()) {
				ok = false
			}
		}
		if !ok {
			os.Exit(2)
		}
		return
	}
	p := props[os.Args[1]]
	if p == nil {
		trouble("unknown property %q", os.Args[1])
	}
	if len(os.Args) >= 4 && os.Args[2] == "--replay" {
		os.Exit(replayCmd(p, os.Args[3]))
	}
	tier := "quick"
	if len(os.Args) >= 3 {
		tier = os.Args[2]
	}
	if t := os.Getenv("VERIF_TIER"); t != "" && len(os.Args) < 3 {
		tier = t
	}
	if tier != "quick" && tier != "thorough" {
		trouble("unknown tier %q", tier)
	}
	os.Exit(check(p, tier))
}

func sortedIDs() []string {
	var ids []string
	for id := range props {
		ids = append(ids, id)
	}
	sort.Strings(ids)
	return ids
}

func freshOutDir(name string) string {
	dir := filepath.Join(root, "out", name)
	os.RemoveAll(dir)
	if err := os.MkdirAll(dir, 0o755); err != nil {
		trouble("mkdir %s: %v", dir, err)
	}
	return dir
}

func check(p *propCfg, tier string) int {
	start := time.Now()
	seed := seedFromEnv()
	bin := buildWorker(p)
	buildS := time.Since(start).Seconds()
	tc := p.Quick
	if tier == "thorough" {
		tc = p.Thorough
	}
	if v := os.Getenv("VERIF_RUNS"); v != "" {
		tc.Runs, _ = strconv.Atoi(v)
	}
	if v := os.Getenv("VERIF_BUDGET_S"); v != "" {
		n, _ := strconv.Atoi(v)
		tc.Budget = time.Duration(n) * time.Second
	}
	workers := tc.Workers
	if n := runtime.NumCPU(); workers > n {
		workers = n
	}
	outDir := freshOutDir(fmt.Sprintf("%s-%s", p.ID, tier))
	known := loadKnown()
	deadline := time.Now().Add(tc.Budget).Unix()
	exploreStart := time.Now()
	var wg sync.WaitGroup
	exits := make([]workerExit, workers)
	for w := 0; w < workers; w++ {
		wg.Add(1)
		go func(w int) {
			defer wg.Done()
			job := &sim.Job{Mode: "explore", Property: p.ID, Tier: tier, Seed: seed, Worker: w, Workers: workers, Runs: tc.Runs,
				Deadline: deadline, OutDir: outDir, MaxViol: envInt("VERIF_MAXVIOL", 2), Known: known, ShrinkSecs: envInt("VERIF_SHRINK_S", 20), Batch: p.Batch}
			exits[w] = runWorker(bin, job, p)
		}(w)
	}
	wg.Wait()
	exploreS := time.Since(exploreStart).Seconds()
	// scratch cache directories of workers that died are left behind: remove them
	if stale, _ := filepath.Glob("/dev/shm/cuesim-*"); len(stale) > 0 {
		for _, d := range stale {
			exec.Command("chmod", "-R", "u+w", d).Run()
			os.RemoveAll(d)
		}
	}

	total := &sim.WorkerResult{Faults: map[string]int{}, Counters: map[string]int{}, Probes: map[string]int{}, SiteHits: map[string]int{},
		SiteParks: map[string]int{}, Policies: map[string]int{}, KnownHits: map[string]int{}}
	hashes := map[uint64]struct{}{}
	var troubles []string
	var crashes []int
	for w := 0; w < workers; w++ {
		data, err := os.ReadFile(filepath.Join(outDir, fmt.Sprintf("result.%d.json", w)))
		if err != nil {
			// worker died: which run?
			if b, e2 := os.ReadFile(filepath.Join(outDir, fmt.Sprintf("current.%d", w))); e2 == nil && len(b) == 8 {
				crashes = append(crashes, int(binary.LittleEndian.Uint64(b)))
			}
			if ee, ok := exits[w].err.(*exec.ExitError); ok && ee.ExitCode() == 2 && strings.Contains(exits[w].stderr, "HARNESS-TROUBLE") {
				full := filepath.Join(outDir, fmt.Sprintf("trouble.%d.txt", w))
				os.WriteFile(full, []byte(exits[w].stderr), 0o644)
				troubles = append(troubles, fmt.Sprintf("worker %d (full output in %s): %s", w, full, firstLines(exits[w].stderr, 40)))
				crashes = crashes[:max(0, len(crashes)-1)]
			}
			continue
		}
		var r sim.WorkerResult
		if err := json.Unmarshal(data, &r); err != nil {
			troubles = append(troubles, fmt.Sprintf("worker %d result: %v", w, err))
			continue
		}
		total.Runs += r.Runs
		if r.Rule != "" {
			total.Rule, total.Real, total.Stubs = r.Rule, r.Real, r.Stubs
		}
		total.Steps += r.Steps
		total.SimTimeNs += r.SimTimeNs
		total.Switches += r.Switches
		total.Leaked += r.Leaked
		if r.MaxParked > total.MaxParked {
			total.MaxParked = r.MaxParked
		}
		total.TimedOut = total.TimedOut || r.TimedOut
		for k, v := range r.Faults {
			total.Faults[k] += v
		}
		for k, v := range r.Counters {
			total.Counters[k] += v
		}
		for k, v := range r.Probes {
			total.Probes[k] += v
		}
		for k, v := range r.SiteHits {
			total.SiteHits[k] += v
		}
		for k, v := range r.SiteParks {
			total.SiteParks[k] += v
		}
		for k, v := range r.Policies {
			total.Policies[k] += v
		}
		for k, v := range r.KnownHits {
			total.KnownHits[k] += v
		}
		if len(total.Samples) < 3 {
			total.Samples = append(total.Samples, r.Samples...)
		}
		total.Violations = append(total.Violations, r.Violations...)
		troubles = append(troubles, r.Trouble...)
		if hb, err := os.ReadFile(filepath.Join(outDir, fmt.Sprintf("hashes.%d.bin", w))); err == nil {
			for i := 0; i+8 <= len(hb); i += 8 {
				hashes[binary.LittleEndian.Uint64(hb[i:])] = struct{}{}
			}
		}
	}

	// Confirm every violation by replaying its minimised file in a fresh process.
	replayDir := filepath.Join(root, "out", "replays")
	os.MkdirAll(replayDir, 0o755)
	var confirmed []string
	sort.Strings(total.Violations)
	for _, vf := range total.Violations {
		dst := filepath.Join(replayDir, fmt.Sprintf("%s-seed%d-%s", p.ID, seed, filepath.Base(vf)))
		data, _ := os.ReadFile(vf)
		os.WriteFile(dst, data, 0o644)
		cls, key, ok, msg := replayOnce(bin, p, dst)
		if !ok {
			troubles = append(troubles, fmt.Sprintf("violation in %s did not reproduce in a fresh process (%s): suspected uncontrolled nondeterminism", dst, msg))
			continue
		}
		if isKnown(known, p.ID, key) {
			total.KnownHits[key]++
			continue
		}
		_ = cls
		confirmed = append(confirmed, dst)
	}
	// Worker crashes (fatal errors, panics on goroutines the harness does not own).
	for _, idx := range crashes {
		dst := filepath.Join(replayDir, fmt.Sprintf("%s-seed%d-crash-%d.json", p.ID, seed, idx))
		if confirmCrash(bin, p, tier, seed, idx, dst) {
			confirmed = append(confirmed, dst)
		} else {
			troubles = append(troubles, fmt.Sprintf("worker died in run %d but the run does not crash when repeated alone (see %s)", idx, outDir))
		}
	}

	wall := time.Since(start).Seconds()
	writeEvidence(p, tier, seed, total, len(hashes), len(confirmed), wall, exploreS, buildS, workers, tc)

	for k, n := range total.KnownHits {
		desc := k
		for _, kf := range known {
			if kf.Property == p.ID && kf.Key == k {
				desc = k + " " + kf.Description
			}
		}
		fmt.Printf("KNOWN-FINDING: property=%s %s (met %d times)\n", p.ID, desc, n)
	}
	fmt.Printf("%s %s: %d runs (%d distinct non-trivial), %d steps, %.1fs simulated, faults fired %v, %.0f runs/s, wall %.1fs (build %.1fs)%s\n",
		p.ID, tier, total.Runs, len(hashes), total.Steps, float64(total.SimTimeNs)/1e9, total.Faults, float64(total.Runs)/exploreS, wall, buildS,
		map[bool]string{true: " [time budget reached]", false: ""}[total.TimedOut])
	if len(confirmed) > 0 {
		for _, c := range confirmed {
			fmt.Printf("VIOLATION property=%s replay=%s\n", p.ID, c)
			describeReplay(c)
		}
		return 1
	}
	if len(troubles) > 0 {
		for _, t := range troubles {
			fmt.Printf("HARNESS-TROUBLE: %s\n", t)
		}
		return 2
	}
	if total.Runs == 0 {
		fmt.Printf("HARNESS-TROUBLE: no run executed\n")
		return 2
	}
	return 0
}

func firstLines(s string, n int) string {
	ls := strings.Split(s, "\n")
	if len(ls) > n {
		ls = ls[:n]
	}
	return strings.Join(ls, "\n")
}

func isKnown(known []sim.KnownFinding, id, key string) bool {
	for _, k := range known {
		if k.Property == id && k.Kind == "finding" && k.Key != "" && strings.Contains(key, k.Key) {
			return true
		}
	}
	return false
}

func describeReplay(path string) {
	data, err := os.ReadFile(path)
	if err != nil {
		return
	}
	var rp sim.Replay
	if json.Unmarshal(data, &rp) != nil || rp.Violation == nil {
		return
	}
	fmt.Printf("  class=%s key=%s step=%d run_index=%d\n  %s\n  %s\n", rp.Violation.Class, rp.Key, rp.Violation.Step, rp.RunIndex, rp.Violation.Msg, rp.Shrunk)
}

func replayOnce(bin string, p *propCfg, file string) (class, key string, ok bool, msg string) {
	dir := freshOutDir(fmt.Sprintf("%s-replay-%d", p.ID, os.Getpid()))
	defer os.RemoveAll(dir)
	job := &sim.Job{Mode: "replay", Property: p.ID, ReplayFile: file, OutDir: dir}
	ex := runWorker(bin, job, p)
	data, err := os.ReadFile(filepath.Join(dir, "result.0.json"))
	if err != nil {
		// the replay crashed the worker: for a crash replay that is the expected outcome
		var rp sim.Replay
		if d, e := os.ReadFile(file); e == nil && json.Unmarshal(d, &rp) == nil && rp.Violation != nil && rp.Violation.Class == "crash" && ex.err != nil && !strings.Contains(ex.stderr, "HARNESS-TROUBLE") {
			return "crash", rp.Key, true, firstLines(ex.stderr, 30)
		}
		return "", "", false, fmt.Sprintf("worker failed: %v\n%s", ex.err, firstLines(ex.stderr, 30))
	}
	var r sim.WorkerResult
	json.Unmarshal(data, &r)
	out, _ := os.ReadFile(filepath.Join(dir, "stdout.0.txt"))
	return r.ReplayClass, r.ReplayKey, r.ReplayOK && len(r.Trouble) == 0, string(out)
}

func replayCmd(p *propCfg, file string) int {
	if abs, err := filepath.Abs(file); err == nil {
		file = abs
	}
	if _, err := os.Stat(file); err != nil {
		trouble("replay file: %v", err)
	}
	bin := buildWorker(p)
	cls, key, ok, msg := replayOnce(bin, p, file)
	fmt.Print(msg)
	if ok {
		if isKnown(loadKnown(), p.ID, key) {
			fmt.Printf("KNOWN-FINDING: property=%s %s\n", p.ID, key)
			return 0
		}
		fmt.Printf("VIOLATION property=%s replay=%s\n  class=%s key=%s\n", p.ID, file, cls, key)
		return 1
	}
	if strings.HasPrefix(msg, "worker failed") {
		fmt.Printf("HARNESS-TROUBLE: replay worker failed\n")
		return 2
	}
	if cls == "" {
		fmt.Printf("replay of %s: no violation on this tree\n", file)
		return 0
	}
	fmt.Printf("replay of %s: different outcome (class=%s) than recorded\n", file, cls)
	return 2
}

// confirmCrash re-runs one run index alone in a fresh process; if the
// process dies again the case is written out as a replay file of class "crash".
func confirmCrash(bin string, p *propCfg, tier string, seed uint64, idx int, dst string) bool {
	dir := freshOutDir(fmt.Sprintf("%s-crash-%d", p.ID, idx))
	job := &sim.Job{Mode: "explore", Property: p.ID, Tier: tier, Seed: seed, Worker: idx, Workers: 1 << 30, Runs: idx + 1, OutDir: dir, MaxViol: 1, ShrinkSecs: 5}
	ex := runWorker(bin, job, p, "CUESIM_DUMPCASE=1")
	if _, err := os.Stat(filepath.Join(dir, "result."+strconv.Itoa(idx)+".json")); err == nil {
		return false
	}
	if strings.Contains(ex.stderr, "HARNESS-TROUBLE") {
		return false
	}
	raw, err := os.ReadFile(filepath.Join(dir, "case.json"))
	if err != nil {
		return false
	}
	rp := sim.Replay{Property: p.ID, Tier: tier, Seed: seed, RunIndex: idx, RunSeed: sim.Mix(seed, uint64(idx)), Case: raw, PolicyDriven: true,
		Violation: &sim.Violation{Class: "crash", Msg: firstLines(ex.stderr, 60)}, Key: "crash:" + crashKey(ex.stderr)}
	data, _ := json.MarshalIndent(rp, "", " ")
	os.WriteFile(dst, data, 0o644)
	return true
}

func crashKey(stderr string) string {
	for _, l := range strings.Split(stderr, "\n") {
		if strings.HasPrefix(l, "fatal error:") || strings.HasPrefix(l, "panic:") {
			return strings.TrimSpace(l)
		}
	}
	return "unknown"
}

func writeEvidence(p *propCfg, tier string, seed uint64, t *sim.WorkerResult, distinct, violations int, wall, exploreS, buildS float64, workers int, tc tierCfg) {
	os.MkdirAll(filepath.Join(root, "evidence"), 0o755)
	cov := map[string]any{
		"evaluations":         t.Runs,
		"distinct_nontrivial": distinct,
		"rule":                t.Rule,
		"samples":             t.Samples,
		"exhaustive":          false,
		"runs_per_hour":       int(float64(t.Runs) / exploreS * 3600),
		"seeds_per_hour":      int(float64(t.Runs) / exploreS * 3600),
		"scheduler_steps":     t.Steps,
		"context_switches":    t.Switches,
		"simulated_time_s":    float64(t.SimTimeNs) / 1e9,
		"faults_fired":        t.Faults,
		"reach_counters":      t.Counters,
		"probes":              t.Probes,
		"hook_site_hits":      t.SiteHits,
		"hook_site_parks":     t.SiteParks,
		"policies":            t.Policies,
		"max_tasks_parked":    t.MaxParked,
		"runs_with_leaked_goroutines": t.Leaked,
		"known_finding_hits":  t.KnownHits,
		"components_real":     t.Real,
		"components_stubbed":  t.Stubs,
		"workers":             workers,
		"runs_requested":      tc.Runs,
		"time_budget_reached": t.TimedOut,
		"build_s":             buildS,
		"explore_s":           exploreS,
		"go":                  goBin(),
	}
	if r := autoResults[p.ID]; r != nil {
		cov["auto_yield"] = r
	}
	ev := map[string]any{
		"property_id": p.ID,
		"tier":        tier,
		"seed":        int64(seed & 0x7fffffffffffffff),
		"level":       p.Level,
		"coverage":    cov,
		"assumptions": p.Assume,
		"wall_s":      wall,
		"violations":  violations,
	}
	data, _ := json.MarshalIndent(ev, "", " ")
	if err := os.WriteFile(filepath.Join(root, "evidence", p.ID+".json"), data, 0o644); err != nil {
		trouble("write evidence: %v", err)
	}
}

// selftest: the same run indices executed in different processes, with
// different worker counts and GOMAXPROCS, must give identical event-log
// hashes and outcomes.
func selftest(p *propCfg, n int) bool {
	bin := buildWorker(p)
	seed := seedFromEnv()
	type cfg struct {
		workers int
		procs   string
	}
	cfgs := []cfg{{1, "1"}, {4, "4"}, {16, "16"}, {12, "2"}, {16, "16"}}
	var ref map[int]string
	residual := map[int]bool{}
	ok := true
	procs := 0
	for ci, c := range cfgs {
		dir := freshOutDir(fmt.Sprintf("%s-selftest-%d", p.ID, ci))
		var wg sync.WaitGroup
		for w := 0; w < c.workers; w++ {
			wg.Add(1)
			procs++
			go func(w int) {
				defer wg.Done()
				job := &sim.Job{Mode: "hashes", Property: p.ID, Tier: "quick", Seed: seed, Worker: w, Workers: c.workers, Runs: n, OutDir: dir, MaxViol: 1, Batch: 1}
				env := []string{}
				if !p.Race {
					env = append(env, "GOMAXPROCS="+c.procs)
				}
				ex := runWorker(bin, job, p, env...)
				if ex.err != nil {
					fmt.Printf("selftest %s: worker failed: %v\n%s\n", p.ID, ex.err, firstLines(ex.stderr, 20))
				}
			}(w)
		}
		wg.Wait()
		got := map[int]string{}
		for w := 0; w < c.workers; w++ {
			data, err := os.ReadFile(filepath.Join(dir, fmt.Sprintf("hashlines.%d.txt", w)))
			if err != nil {
				fmt.Printf("selftest %s: missing hash lines of worker %d\n", p.ID, w)
				ok = false
				continue
			}
			for _, l := range strings.Split(strings.TrimRight(string(data), "\n"), "\n") {
				f := strings.SplitN(l, " ", 2)
				if len(f) == 2 {
					i, _ := strconv.Atoi(f[0])
					got[i] = f[1]
				}
			}
		}
		if ref == nil {
			ref = got
		} else {
			for i, h := range ref {
				if got[i] != h {
					if p.OrderResidual && outcomeOf(got[i]) == outcomeOf(h) {
						residual[i] = true
						continue
					}
					fmt.Printf("selftest %s: run %d diverged: [%s] vs [%s] (workers=%d GOMAXPROCS=%s)\n", p.ID, i, h, got[i], c.workers, c.procs)
					ok = false
				}
			}
		}
		os.RemoveAll(dir)
	}
	extra := ""
	if p.OrderResidual {
		extra = fmt.Sprintf(" (outcomes identical; event logs of %d run indices differ in the order of concurrent spot checks, which follows Go map iteration)", len(residual))
	}
	fmt.Printf("selftest %s: %d run indices x %d configurations in %d OS processes: deterministic=%v%s\n", p.ID, n, len(cfgs), procs, ok, extra)
	return ok
}

func selftestN() int {
	if v, err := strconv.Atoi(os.Getenv("VERIF_SELFTEST_N")); err == nil && v > 0 {
		return v
	}
	return 64
}

func envInt(name string, def int) int {
	if v, err := strconv.Atoi(os.Getenv(name)); err == nil && v > 0 {
		return v
	}
	return def
}

// outcomeOf strips event-log hash and step count from a self-test line: "hash steps class final".
func outcomeOf(line string) string {
	f := strings.SplitN(line, " ", 3)
	if len(f) < 3 {
		return line
	}
	return f[2]
}
