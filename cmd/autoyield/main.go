// Command autoyield runs the instrumentation pass of package autoyield for one
// worker package and prints what it did (the driver does the same when it
// builds a worker whose property has AutoYield set).
//
//	go run ./cmd/autoyield ./c19/ out/overlay/try cue/... internal/...
package main

import (
	"encoding/json"
	"fmt"
	"os"

	"cuelang.org/go/verifsim/autoyield"
)

func main() {
	if len(os.Args) < 4 {
		fmt.Fprintln(os.Stderr, "usage: autoyield <test package> <out dir> <include>...")
		os.Exit(2)
	}
	goBin := os.Getenv("GO")
	if goBin == "" {
		goBin = "go"
	}
	res, err := autoyield.Instrument(goBin, os.Environ(), ".", os.Args[1], "verif", "cuelang.org/go", os.Args[3:],
		[]string{"internal/simhook"}, os.Args[2])
	if err != nil {
		fmt.Fprintln(os.Stderr, err)
		os.Exit(2)
	}
	data, _ := json.MarshalIndent(res, "", " ")
	fmt.Println(string(data))
}
