// Package autoyield puts a scheduling point in front of every synchronisation
// operation of the code under simulation, without touching /repo: it reads the
// packages a worker binary links from /repo's current working tree, type-checks
// them, and writes instrumented copies of the files that use sync or
// sync/atomic next to an overlay file for `go build -overlay`.
//
// For a program whose shared accesses are all ordered by synchronisation
// operations, every behaviour is equivalent to one in which tasks are switched
// at synchronisation operations only; the race detector reports the accesses
// that are not so ordered. The hand-placed simhook.Yield calls in /repo cover
// the places known when they were written; this pass covers whatever the tree
// being checked contains, including synchronisation a change has just added.
//
// What is inserted (text is spliced into the original line, so line numbers
// and therefore race reports still refer to /repo's files):
//
//	verifauto.Yield("auto:<pkg>.<func>:<line>:<op>"); <stmt>   before a statement that
//	        calls sync.Mutex/RWMutex.Lock/RLock, sync.Once.Do, a sync.Map method or
//	        anything in sync/atomic
//	<stmt>; verifauto.Yield("auto:…:after")  and behind it (unlocks, atomics, sync.Map, Once.Do)
//	<Lock stmt>; verifauto.NoYield(1)       the simulator must not switch tasks while a real
//	verifauto.NoYield(-1); <Unlock stmt>    lock is held (the next task could block on it
//	defer x.Unlock(); defer verifauto.NoYield(-1)   while holding the turn)
//	verifauto.NoYield(1); once.Do(f); verifauto.NoYield(-1)
//	sync.OnceValue(func() T { verifauto.NoYield(1); defer verifauto.NoYield(-1); … })
package autoyield

import (
	"bytes"
	"encoding/json"
	"fmt"
	"go/ast"
	"go/importer"
	"go/parser"
	"go/token"
	"go/types"
	"io"
	"os"
	"os/exec"
	"path/filepath"
	"sort"
	"strings"
)

const hookImport = `; import verifauto "cuelang.org/go/internal/simhook"`

// Result describes one instrumentation pass.
type Result struct {
	Overlay  string   `json:"overlay"`
	Packages int      `json:"packages_examined"`
	Files    []string `json:"files_rewritten"`
	Sites    []string `json:"yield_sites"`
	Brackets int      `json:"lock_brackets"`
	Warnings []string `json:"warnings,omitempty"`
}

type listPkg struct {
	Dir        string
	ImportPath string
	Export     string
	GoFiles    []string
	ImportMap  map[string]string
	Standard   bool
	ForTest    string
}

type edit struct {
	off  int
	seq  int
	text string
}

// Instrument examines the dependencies of test package pkg (relative to dir)
// that lie under modulePrefix and match one of the include prefixes (import
// path relative to the module, "" = the module root package; a trailing "/..."
// matches sub-packages), and writes rewritten files and overlay.json to outDir.
func Instrument(goBin string, env []string, dir, pkg, tags, modulePrefix string, include, exclude []string, outDir string) (*Result, error) {
	cmd := exec.Command(goBin, "list", "-tags", tags, "-test", "-deps", "-export",
		"-json=ImportPath,Dir,GoFiles,Export,ImportMap,Standard,ForTest", pkg)
	cmd.Dir = dir
	cmd.Env = env
	var stderr bytes.Buffer
	cmd.Stderr = &stderr
	out, err := cmd.Output()
	if err != nil {
		return nil, fmt.Errorf("go list: %v\n%s", err, stderr.String())
	}
	var pkgs []*listPkg
	exports := map[string]string{}
	dec := json.NewDecoder(bytes.NewReader(out))
	for {
		var p listPkg
		if err := dec.Decode(&p); err == io.EOF {
			break
		} else if err != nil {
			return nil, fmt.Errorf("go list output: %v", err)
		}
		if p.ForTest != "" || strings.Contains(p.ImportPath, " ") || strings.HasSuffix(p.ImportPath, ".test") {
			continue
		}
		pp := p
		pkgs = append(pkgs, &pp)
		if p.Export != "" {
			exports[p.ImportPath] = p.Export
		}
	}
	res := &Result{Overlay: filepath.Join(outDir, "overlay.json")}
	os.RemoveAll(outDir)
	if err := os.MkdirAll(outDir, 0o755); err != nil {
		return nil, err
	}
	overlay := map[string]string{}
	for _, p := range pkgs {
		if p.Standard || !strings.HasPrefix(p.ImportPath, modulePrefix) {
			continue
		}
		rel := strings.TrimPrefix(strings.TrimPrefix(p.ImportPath, modulePrefix), "/")
		if !match(rel, include) || match(rel, exclude) {
			continue
		}
		res.Packages++
		if err := instrumentPkg(p, exports, rel, outDir, overlay, res); err != nil {
			return nil, fmt.Errorf("%s: %v", p.ImportPath, err)
		}
	}
	sort.Strings(res.Files)
	sort.Strings(res.Sites)
	data, _ := json.MarshalIndent(map[string]any{"Replace": overlay}, "", " ")
	if err := os.WriteFile(res.Overlay, data, 0o644); err != nil {
		return nil, err
	}
	return res, nil
}

func match(rel string, pats []string) bool {
	for _, pat := range pats {
		if base, ok := strings.CutSuffix(pat, "/..."); ok {
			if rel == base || strings.HasPrefix(rel, base+"/") {
				return true
			}
		} else if rel == pat {
			return true
		}
	}
	return false
}

func usesSync(f *ast.File) bool {
	for _, im := range f.Imports {
		if im.Path.Value == `"sync"` || im.Path.Value == `"sync/atomic"` {
			return true
		}
	}
	return false
}

func instrumentPkg(p *listPkg, exports map[string]string, rel, outDir string, overlay map[string]string, res *Result) error {
	fset := token.NewFileSet()
	var files []*ast.File
	var srcs [][]byte
	any := false
	for _, name := range p.GoFiles {
		path := filepath.Join(p.Dir, name)
		src, err := os.ReadFile(path)
		if err != nil {
			return err
		}
		f, err := parser.ParseFile(fset, path, src, parser.SkipObjectResolution)
		if err != nil {
			return err
		}
		files = append(files, f)
		srcs = append(srcs, src)
		if usesSync(f) {
			any = true
		}
	}
	if !any {
		return nil
	}
	lookup := func(path string) (io.ReadCloser, error) {
		if m, ok := p.ImportMap[path]; ok {
			path = m
		}
		e, ok := exports[path]
		if !ok {
			return nil, fmt.Errorf("no export data for %s", path)
		}
		return os.Open(e)
	}
	info := &types.Info{Uses: map[*ast.Ident]types.Object{}, Selections: map[*ast.SelectorExpr]*types.Selection{}}
	var terrs []string
	conf := types.Config{
		Importer: importer.ForCompiler(fset, "gc", lookup),
		Error:    func(err error) { terrs = append(terrs, err.Error()) },
	}
	conf.Check(p.ImportPath, fset, files, info)
	if len(terrs) > 0 {
		// the go build that follows reports real errors properly; type errors here
		// (there should be none) only mean some calls may go unrecognised
		res.Warnings = append(res.Warnings, fmt.Sprintf("%s: %d type errors, first: %s", p.ImportPath, len(terrs), terrs[0]))
	}
	for i, f := range files {
		if !usesSync(f) {
			continue
		}
		in := &instr{fset: fset, info: info, file: f, pkgName: f.Name.Name, res: res, seen: map[ast.Stmt]bool{}}
		in.walk()
		if len(in.edits) == 0 {
			continue
		}
		// the import goes on the line of the package clause
		in.add(in.offset(f.Name.End()), hookImport)
		outPath := filepath.Join(outDir, rel, filepath.Base(p.GoFiles[i]))
		os.MkdirAll(filepath.Dir(outPath), 0o755)
		if err := os.WriteFile(outPath, in.apply(srcs[i]), 0o644); err != nil {
			return err
		}
		orig := filepath.Join(p.Dir, p.GoFiles[i])
		overlay[orig] = outPath
		res.Files = append(res.Files, orig)
	}
	return nil
}

type instr struct {
	fset    *token.FileSet
	info    *types.Info
	file    *ast.File
	pkgName string
	res     *Result
	edits   []edit
	seen    map[ast.Stmt]bool // statements that already have a yield
	stack   []ast.Node
}

func (in *instr) offset(p token.Pos) int { return in.fset.Position(p).Offset }

func (in *instr) add(off int, text string) {
	in.edits = append(in.edits, edit{off, len(in.edits), text})
}

func (in *instr) apply(src []byte) []byte {
	sort.SliceStable(in.edits, func(i, j int) bool {
		if in.edits[i].off != in.edits[j].off {
			return in.edits[i].off < in.edits[j].off
		}
		return in.edits[i].seq < in.edits[j].seq
	})
	var out bytes.Buffer
	last := 0
	for _, e := range in.edits {
		out.Write(src[last:e.off])
		out.WriteString(e.text)
		last = e.off
	}
	out.Write(src[last:])
	return out.Bytes()
}

// classify reports what call is, in terms of the sync and sync/atomic packages.
func (in *instr) classify(call *ast.CallExpr) (kind, op string) {
	var id *ast.Ident
	switch fun := ast.Unparen(call.Fun).(type) {
	case *ast.SelectorExpr:
		id = fun.Sel
	case *ast.IndexExpr: // explicit instantiation: atomic.Pointer methods never need it, sync.OnceValue[T] may
		if sel, ok := ast.Unparen(fun.X).(*ast.SelectorExpr); ok {
			id = sel.Sel
		}
	}
	if id == nil {
		return "", ""
	}
	fn, ok := in.info.Uses[id].(*types.Func)
	if !ok || fn.Pkg() == nil {
		return "", ""
	}
	pkg := fn.Pkg().Path()
	if pkg != "sync" && pkg != "sync/atomic" {
		return "", ""
	}
	recv := ""
	if sig, ok := fn.Type().(*types.Signature); ok && sig.Recv() != nil {
		t := sig.Recv().Type()
		if pt, ok := t.(*types.Pointer); ok {
			t = pt.Elem()
		}
		if n, ok := t.(*types.Named); ok {
			recv = n.Obj().Name()
		}
	}
	name := fn.Name()
	if pkg == "sync/atomic" {
		if recv != "" {
			return "yield", recv + "." + name
		}
		return "yield", "atomic." + name
	}
	switch recv {
	case "Mutex", "RWMutex", "Locker":
		switch name {
		case "Lock", "RLock":
			return "lock", recv + "." + name
		case "Unlock", "RUnlock":
			return "unlock", recv + "." + name
		}
		return "unsupported", recv + "." + name
	case "Once":
		return "once", "Once.Do"
	case "Map":
		return "yield", "Map." + name
	case "":
		switch name {
		case "OnceFunc", "OnceValue", "OnceValues":
			return "oncefunc", name
		}
	}
	return "", "" // WaitGroup, Cond, Pool: blocking or scheduler-dependent by contract; not hosted here
}

// foreign reports whether the node on top of the stack lies in a function
// literal that does not run on the calling task: a cleanup, finalizer or timer
// callback (it runs on a goroutine of the Go runtime, which the simulator does
// not schedule) or the body of a go statement.
func (in *instr) foreign() bool {
	for i := len(in.stack) - 1; i >= 2; i-- {
		if _, ok := in.stack[i].(*ast.FuncLit); !ok {
			continue
		}
		call, ok := in.stack[i-1].(*ast.CallExpr)
		if !ok {
			continue
		}
		if g, ok := in.stack[i-2].(*ast.GoStmt); ok && g.Call == call && call.Fun == in.stack[i] {
			return true
		}
		var id *ast.Ident
		switch fun := ast.Unparen(call.Fun).(type) {
		case *ast.SelectorExpr:
			id = fun.Sel
		case *ast.IndexExpr:
			if sel, ok := ast.Unparen(fun.X).(*ast.SelectorExpr); ok {
				id = sel.Sel
			}
		}
		if id == nil {
			continue
		}
		if fn, ok := in.info.Uses[id].(*types.Func); ok && fn.Pkg() != nil {
			if p := fn.Pkg().Path(); p == "runtime" || p == "time" {
				return true
			}
		}
	}
	return false
}

func (in *instr) funcName() string {
	for i := len(in.stack) - 1; i >= 0; i-- {
		if fd, ok := in.stack[i].(*ast.FuncDecl); ok {
			name := fd.Name.Name
			if fd.Recv != nil && len(fd.Recv.List) == 1 {
				t := fd.Recv.List[0].Type
				if st, ok := t.(*ast.StarExpr); ok {
					t = st.X
				}
				if ix, ok := t.(*ast.IndexExpr); ok {
					t = ix.X
				}
				if id, ok := t.(*ast.Ident); ok {
					name = id.Name + "." + name
				}
			}
			return name
		}
	}
	return "init"
}

// enclosing finds the innermost statement around the node on top of the stack
// that is an element of a statement list, and reports whether the call is that
// statement itself (an expression statement), the call of a defer or go
// statement, or sits in the condition or post statement of a for loop.
func (in *instr) enclosing() (stmt ast.Stmt, direct ast.Stmt, loop *ast.ForStmt) {
	call := in.stack[len(in.stack)-1]
	for i := len(in.stack) - 2; i >= 0; i-- {
		n := in.stack[i]
		child := in.stack[i+1]
		switch x := n.(type) {
		case *ast.FuncLit:
			return nil, nil, nil // reached a function body boundary without a list: cannot happen for bodies
		case *ast.ExprStmt:
			if x.X == call {
				direct = x
			}
		case *ast.DeferStmt:
			if x.Call == call {
				direct = x
			}
		case *ast.GoStmt:
			if x.Call == call {
				direct = x
			}
		case *ast.ForStmt:
			if child != ast.Node(x.Body) && child != ast.Node(x.Init) {
				loop = x
			}
		}
		if s, ok := child.(ast.Stmt); ok {
			switch n.(type) {
			case *ast.BlockStmt, *ast.CaseClause, *ast.CommClause:
				if _, isComm := n.(*ast.CommClause); isComm && child == ast.Node(n.(*ast.CommClause).Comm) {
					continue
				}
				return s, direct, loop
			}
		}
	}
	return nil, nil, nil
}

func (in *instr) walk() {
	ast.Inspect(in.file, func(n ast.Node) bool {
		if n == nil {
			in.stack = in.stack[:len(in.stack)-1]
			return true
		}
		in.stack = append(in.stack, n)
		call, ok := n.(*ast.CallExpr)
		if !ok {
			return true
		}
		kind, op := in.classify(call)
		if kind == "" {
			return true
		}
		if in.foreign() {
			return true
		}
		line := in.fset.Position(call.Pos()).Line
		site := fmt.Sprintf("auto:%s.%s:%d:%s", in.pkgName, in.funcName(), line, op)
		where := fmt.Sprintf("%s:%d", in.fset.Position(call.Pos()).Filename, line)
		if kind == "unsupported" {
			in.res.Warnings = append(in.res.Warnings, where+": "+op+" is not modelled")
			return true
		}
		if kind == "oncefunc" {
			if len(call.Args) == 1 {
				if fl, ok := call.Args[0].(*ast.FuncLit); ok {
					in.add(in.offset(fl.Body.Lbrace)+1, " verifauto.NoYield(1); defer verifauto.NoYield(-1); ")
					in.res.Brackets++
					return true
				}
			}
			in.res.Warnings = append(in.res.Warnings, where+": "+op+" of something other than a function literal: not bracketed")
			return true
		}
		stmt, direct, loop := in.enclosing()
		if stmt == nil {
			return true // package-level initialiser
		}
		yield := func() {
			if in.seen[stmt] {
				return
			}
			in.seen[stmt] = true
			in.add(in.offset(stmt.Pos()), fmt.Sprintf("verifauto.Yield(%q); ", site))
			in.res.Sites = append(in.res.Sites, site)
			if loop != nil {
				in.add(in.offset(loop.Body.Lbrace)+1, fmt.Sprintf(" verifauto.Yield(%q); ", site+":loop"))
				in.res.Sites = append(in.res.Sites, site+":loop")
			}
		}
		// after: a second scheduling point right behind the operation. A task that is
		// switched out there resumes with plain accesses, without first synchronising
		// with what the others did meanwhile — which is what lets the race detector
		// see an unordered pair (in front of an operation only, every resumed task
		// would start by acquiring).
		after := func(off int, how string) {
			in.add(off, fmt.Sprintf(how, site+":after"))
			in.res.Sites = append(in.res.Sites, site+":after")
		}
		switch d := direct.(type) {
		case *ast.DeferStmt:
			if kind == "unlock" {
				// deferred calls run last-in first-out: NoYield(-1), the unlock, the yield
				after(in.offset(d.Pos()), "defer verifauto.Yield(%q); ")
				in.add(in.offset(d.End()), "; defer verifauto.NoYield(-1)")
			}
			return true // other deferred operations run at return; no statement to put a yield in front of
		case *ast.GoStmt:
			return true
		}
		switch kind {
		case "yield":
			first := !in.seen[stmt]
			yield()
			if first {
				switch x := stmt.(type) {
				case *ast.ExprStmt, *ast.AssignStmt, *ast.IncDecStmt, *ast.DeclStmt:
					after(in.offset(stmt.End()), "; verifauto.Yield(%q)")
				case *ast.IfStmt:
					if loop == nil {
						after(in.offset(x.Body.Lbrace)+1, " verifauto.Yield(%q); ")
						if eb, ok := x.Else.(*ast.BlockStmt); ok {
							in.add(in.offset(eb.Lbrace)+1, fmt.Sprintf(" verifauto.Yield(%q); ", site+":after"))
						} else if x.Else == nil {
							in.add(in.offset(x.End()), fmt.Sprintf("; verifauto.Yield(%q)", site+":after"))
						}
					}
				}
			}
		case "lock":
			if direct == nil {
				in.res.Warnings = append(in.res.Warnings, where+": "+op+" inside a larger statement: not bracketed")
				return true
			}
			yield()
			in.add(in.offset(direct.End()), "; verifauto.NoYield(1)")
			in.res.Brackets++
		case "unlock":
			if direct == nil {
				in.res.Warnings = append(in.res.Warnings, where+": "+op+" inside a larger statement: not bracketed")
				return true
			}
			in.add(in.offset(direct.Pos()), "verifauto.NoYield(-1); ")
			after(in.offset(direct.End()), "; verifauto.Yield(%q)")
		case "once":
			if direct == nil {
				in.res.Warnings = append(in.res.Warnings, where+": "+op+" inside a larger statement: not bracketed")
				return true
			}
			yield()
			in.add(in.offset(direct.Pos()), "verifauto.NoYield(1); ")
			in.add(in.offset(direct.End()), "; verifauto.NoYield(-1)")
			after(in.offset(direct.End()), "; verifauto.Yield(%q)")
			in.res.Brackets++
		}
		return true
	})
}
