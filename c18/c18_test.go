// Package c18 decides property C18: workflow tasks run once, after everything
// they depend on, under every schedule.
//
// Real code: tools/flow (controller, task discovery, dependency analysis via
// internal/core/dep, cycle check), the CUE evaluator and cue API,
// internal/core/convert (Task.Fill). Stub: the task runners (synthetic
// flow.Runner values that park in the simulator instead of doing I/O).
package c18

import (
	"context"
	"encoding/json"
	"errors"
	"fmt"
	"sort"
	"strings"
	"sync"
	"testing"

	"cuelang.org/go/cue"
	"cuelang.org/go/cue/cuecontext"
	"cuelang.org/go/tools/flow"
	"cuelang.org/go/verifsim/sim"
)

// ---------- case ----------

type Dep struct {
	On   int    `json:"on"`
	Kind string `json:"kind"` // out | interp | nested | mid | const | len
}

type TaskSpec struct {
	Name  string `json:"name"`
	Place string `json:"place"` // root | grp | list | ext | hidden
	Role  string `json:"role"`  // plain | gen | dyn | collect
	K     int    `json:"k"`
	Deps  []Dep  `json:"deps,omitempty"`
	After []int  `json:"after,omitempty"`
	List  []int  `json:"list,omitempty"` // gen: the list it produces
	Gen   int    `json:"gen,omitempty"`  // dyn/collect: index of the generator
	Back  *Dep   `json:"back,omitempty"` // a reference to a later task: makes the workflow cyclic
}

type Case struct {
	Sched           sim.SchedConfig `json:"sched"`
	Tasks           []TaskSpec      `json:"tasks"`
	IgnoreConcrete  bool            `json:"ignore_concrete"`
	InferTasks      bool            `json:"infer_tasks"`
	FindHiddenTasks bool            `json:"find_hidden_tasks"`
	Fail            string          `json:"fail,omitempty"`      // instance path whose runner fails
	FailMode        string          `json:"fail_mode,omitempty"` // error | abort | conflict (the result contradicts the configuration)
	Stall           []string        `json:"stall,omitempty"`     // instance paths that finish only when nothing else can run
	CancelAfter     int             `json:"cancel_after,omitempty"` // >0: a canceller task cancels the context after that many of its own steps
	// UpdatePark: probability that the controller parks in Config.UpdateFunc (an existing callback seam,
	// called after every folded result): meanwhile several runners can finish and queue their results.
	UpdatePark float64 `json:"update_park,omitempty"`
}

func (c *Case) SchedCfg() *sim.SchedConfig { return &c.Sched }

func (c *Case) Summary() any {
	return map[string]any{"policy": c.Sched.Policy, "program": render(c), "ignore_concrete": c.IgnoreConcrete, "infer_tasks": c.InferTasks,
		"find_hidden_tasks": c.FindHiddenTasks, "fail": c.Fail, "fail_mode": c.FailMode, "stall": c.Stall, "cancel_after": c.CancelAfter}
}

func (c *Case) clone() *Case {
	d := *c
	d.Tasks = make([]TaskSpec, len(c.Tasks))
	for i, t := range c.Tasks {
		t.Deps = append([]Dep{}, t.Deps...)
		t.After = append([]int{}, t.After...)
		t.List = append([]int{}, t.List...)
		if t.Back != nil {
			b := *t.Back
			t.Back = &b
		}
		d.Tasks[i] = t
	}
	d.Stall = append([]string{}, c.Stall...)
	return &d
}

// dropTask removes task i and every reference to it; ok=false if that is not possible.
func (c *Case) dropTask(i int) (*Case, bool) {
	d := c.clone()
	if r := d.Tasks[i].Role; r == "gen" || r == "dyn" {
		for k, t := range d.Tasks {
			if k != i && (t.Role == "dyn" || t.Role == "collect") && t.Gen == i {
				return nil, false
			}
			if r == "dyn" && t.Role == "collect" && t.Gen == d.Tasks[i].Gen {
				return nil, false
			}
		}
	}
	fix := func(j int) (int, bool) {
		if j == i {
			return 0, false
		}
		if j > i {
			return j - 1, true
		}
		return j, true
	}
	var out []TaskSpec
	for k, t := range d.Tasks {
		if k == i {
			continue
		}
		var deps []Dep
		for _, dp := range t.Deps {
			if j, ok := fix(dp.On); ok {
				deps = append(deps, Dep{j, dp.Kind})
			}
		}
		t.Deps = deps
		var after []int
		for _, a := range t.After {
			if j, ok := fix(a); ok {
				after = append(after, j)
			}
		}
		t.After = after
		if t.Back != nil {
			if j, ok := fix(t.Back.On); ok {
				t.Back.On = j
			} else {
				t.Back = nil
			}
		}
		if t.Role == "dyn" || t.Role == "collect" {
			t.Gen, _ = fix(t.Gen)
		}
		out = append(out, t)
	}
	d.Tasks = out
	return d, len(out) > 0
}

func (c *Case) Shrinks() []sim.CaseI {
	var out []sim.CaseI
	if c.CancelAfter > 0 {
		d := c.clone()
		d.CancelAfter = 0
		out = append(out, d)
	}
	if c.UpdatePark > 0 {
		d := c.clone()
		d.UpdatePark = 0
		out = append(out, d)
	}
	for i := range c.Stall {
		d := c.clone()
		d.Stall = append(d.Stall[:i], d.Stall[i+1:]...)
		out = append(out, d)
	}
	if c.Fail != "" {
		d := c.clone()
		d.Fail, d.FailMode = "", ""
		out = append(out, d)
	}
	for i := len(c.Tasks) - 1; i >= 0; i-- {
		if d, ok := c.dropTask(i); ok {
			out = append(out, d)
		}
	}
	for i, t := range c.Tasks {
		for j := range t.Deps {
			d := c.clone()
			d.Tasks[i].Deps = append(d.Tasks[i].Deps[:j], d.Tasks[i].Deps[j+1:]...)
			out = append(out, d)
		}
		for j := range t.After {
			d := c.clone()
			d.Tasks[i].After = append(d.Tasks[i].After[:j], d.Tasks[i].After[j+1:]...)
			out = append(out, d)
		}
		if t.Role == "gen" && len(t.List) > 1 {
			d := c.clone()
			d.Tasks[i].List = d.Tasks[i].List[:len(t.List)-1]
			out = append(out, d)
		}
		if t.Place != "root" && t.Role == "plain" {
			d := c.clone()
			d.Tasks[i].Place = "root"
			out = append(out, d)
		}
	}
	return out
}

// ---------- generator ----------

// Ways in which a task refers to another one: its output, an interpolation of it, a nested
// field, a field outside any task that refers to it, a constant the task declares (a
// dependency only when concrete values count), the length of the output, the whole of a
// result struct, the whole of a closed list of records that the task fills, one record of
// that list, a comprehension over it.
var depKinds = []string{"out", "out", "interp", "nested", "mid", "const", "len", "whole", "recs", "recs", "rec0", "comp"}

func gen(seed uint64, tier string, idx int) sim.CaseI {
	wr := sim.NewRand(sim.Mix(seed, 1))
	kr := sim.NewRand(sim.Mix(seed, 2))
	c := &Case{}
	c.IgnoreConcrete = wr.Bool(0.4)
	c.InferTasks = wr.Bool(0.4)
	c.FindHiddenTasks = wr.Bool(0.4)
	maxT := 10
	if tier == "thorough" && wr.Bool(0.2) {
		maxT = 14
	}
	n := wr.Range(2, maxT)
	shape := wr.Intn(5) // 0 chain, 1 fan-in/out, 2 diamond-ish dense, 3 sparse, 4 mixed
	listHeavy := wr.Bool(0.2) // most tasks are elements of one list (results are folded in by index)
	genAt, dynAt, colAt := -1, -1, -1
	if wr.Bool(0.35) && n >= 3 {
		genAt = wr.Intn(n - 1)
		dynAt = wr.Range(genAt+1, n-1)
		if dynAt < n-1 && wr.Bool(0.6) {
			colAt = wr.Range(dynAt+1, n-1)
		}
	}
	for i := 0; i < n; i++ {
		t := TaskSpec{Name: fmt.Sprintf("t%d", i), Place: "root", Role: "plain", K: wr.Intn(50)}
		switch {
		case i == genAt:
			t.Role = "gen"
			for x := 1; x <= wr.Range(1, 4); x++ {
				t.List = append(t.List, x)
			}
		case i == dynAt:
			t.Role, t.Gen = "dyn", genAt
		case i == colAt:
			t.Role, t.Gen = "collect", genAt
		default:
			switch p := wr.Intn(10); {
			case p == 0:
				t.Place = "grp"
			case p == 1 || (listHeavy && p < 8):
				t.Place = "list"
			case p == 2 && c.InferTasks:
				t.Place = "ext"
			case p == 3 && c.FindHiddenTasks:
				t.Place = "hidden"
			}
		}
		// candidates to depend on: earlier tasks, except dyn templates (their instances are reached through collect only)
		var cands []int
		for j := 0; j < i; j++ {
			if c.Tasks[j].Role != "dyn" {
				cands = append(cands, j)
			}
		}
		nd := 0
		if len(cands) > 0 {
			switch shape {
			case 0:
				nd = 1
			case 1:
				nd = wr.Intn(2)
				if i == n-1 {
					nd = min(len(cands), 4)
				}
			case 2:
				nd = wr.Range(1, 3)
			case 3:
				nd = wr.Intn(2)
			default:
				nd = wr.Intn(4)
			}
		}
		for d := 0; d < nd; d++ {
			on := cands[wr.Intn(len(cands))]
			if shape == 0 {
				on = cands[len(cands)-1]
			}
			kind := depKinds[wr.Intn(len(depKinds))]
			if c.Tasks[on].Place == "ext" && kind == "const" {
				kind = "out"
			}
			t.Deps = append(t.Deps, Dep{On: on, Kind: kind})
		}
		if len(cands) > 0 && wr.Bool(0.2) {
			on := cands[wr.Intn(len(cands))]
			if c.Tasks[on].Place != "ext" && t.Role != "dyn" {
				t.After = append(t.After, on)
			}
		}
		c.Tasks = append(c.Tasks, t)
	}
	// an external task only exists as a task if something in the root refers to it through a non-concrete field
	for i, t := range c.Tasks {
		if t.Place != "ext" {
			continue
		}
		used := false
		for _, u := range c.Tasks[i+1:] {
			for _, d := range u.Deps {
				if d.On == i && d.Kind != "const" && u.Place != "ext" {
					used = true
				}
			}
		}
		if !used {
			c.Tasks[i].Place = "root"
		}
	}
	// cyclic workflows (negative cases)
	if wr.Bool(0.08) && n >= 2 {
		i := wr.Intn(n - 1)
		j := wr.Range(i+1, n-1)
		if c.Tasks[i].Role != "dyn" && c.Tasks[j].Role == "plain" && c.Tasks[i].Place != "ext" && c.Tasks[j].Place != "ext" {
			// make sure j depends (transitively) on i, then close the loop
			c.Tasks[j].Deps = append(c.Tasks[j].Deps, Dep{On: i, Kind: "out"})
			c.Tasks[i].Back = &Dep{On: j, Kind: []string{"out", "interp", "nested", "mid"}[wr.Intn(4)]}
		}
	}
	// a cycle that only comes into existence when the generator's result is folded in:
	// collector -> generated tasks -> (a later task that depends on the collector) -> collector
	if genAt >= 0 && colAt >= 0 && colAt < n-1 && wr.Bool(0.3) {
		has := false
		for _, x := range c.Tasks[genAt].List {
			has = has || x > 1
		}
		static := false
		for _, t := range c.Tasks {
			static = static || t.Back != nil
		}
		j := wr.Range(colAt+1, n-1)
		if has && !static && c.Tasks[j].Role == "plain" && c.Tasks[j].Place != "ext" {
			c.Tasks[j].Deps = append(c.Tasks[j].Deps, Dep{On: colAt, Kind: "out"})
			c.Tasks[dynAt].Back = &Dep{On: j, Kind: "out"}
		}
	}
	m := buildModel(c)
	// knobs
	c.UpdatePark = []float64{0, 0, 0.3, 1}[kr.Intn(4)]
	c.Sched = sim.SchedConfig{Seed: sim.Mix(seed, 3)}
	switch kr.Intn(10) {
	case 0:
		c.Sched.Policy = "sequential"
	case 1, 2, 3, 4:
		c.Sched.Policy = "latency"
		c.Sched.LatencyMs = map[sim.Kind][2]int{sim.KRun: {1, 1 + kr.Intn(1000)}, sim.KStart: {0, kr.Intn(20)}, sim.KClient: {1, 300}}
		if kr.Bool(0.5) && len(m.insts) > 0 {
			c.Sched.SlowTask = m.order[kr.Intn(len(m.order))] + " "
			c.Sched.SlowFactor = 3 + kr.Intn(30)
		}
	case 5, 6:
		c.Sched.Policy = "pct"
		c.Sched.PCTDepth = kr.Range(1, 3)
		c.Sched.PCTSpan = 4 * len(m.order)
	default:
		c.Sched.Policy = "uniform"
	}
	// fault plan
	if !m.cyclic && !m.dynCyclic && len(m.order) > 0 {
		switch kr.Intn(10) {
		case 0, 1, 2:
			c.Fail = m.order[kr.Intn(len(m.order))]
			c.FailMode = []string{"error", "abort", "conflict"}[kr.Intn(3)]
			// A result that contradicts the configuration is an error of the workflow only where the
			// controller looks for errors: under Config.Root. (For a task outside the root the
			// contradiction stays local to a field nobody may refer to; what should happen then is
			// not something the property speaks about.)
			if in := m.insts[c.Fail]; c.FailMode == "conflict" && (in == nil || c.Tasks[in.spec].Place == "ext") {
				c.FailMode = "error"
			}
		case 3:
			c.CancelAfter = kr.Range(1, 2*len(m.order))
			// With the controller parked in UpdateFunc a cancellation can become ready together with a
			// queued result, and which of the two its select takes is Go's random choice, not the
			// simulator's: the two fault kinds are not combined.
			c.UpdatePark = 0
		}
		if kr.Bool(0.3) {
			c.Stall = append(c.Stall, m.order[kr.Intn(len(m.order))])
		}
	}
	return c
}

// ---------- program text ----------

func (c *Case) ref(i int) string {
	t := c.Tasks[i]
	switch t.Place {
	case "grp":
		return "root.grp." + t.Name
	case "list":
		k := 0
		for j := 0; j < i; j++ {
			if c.Tasks[j].Place == "list" {
				k++
			}
		}
		return fmt.Sprintf("root.lst[%d]", k)
	case "ext":
		return "ext." + t.Name
	case "hidden":
		return "root._" + t.Name
	}
	return "root." + t.Name
}

func (c *Case) depExpr(d Dep) string {
	r := c.ref(d.On)
	switch d.Kind {
	case "out":
		return r + ".out"
	case "interp":
		return fmt.Sprintf(`"x-\(%s.out)-y"`, r)
	case "nested":
		return r + ".res.deep"
	case "mid":
		return fmt.Sprintf("mid_%s", c.Tasks[d.On].Name)
	case "const":
		return r + ".k + 1"
	case "len":
		return fmt.Sprintf("len(%s.out)", r)
	case "whole":
		return r + ".res"
	case "recs":
		return r + ".recs"
	case "rec0":
		return r + ".recs[0].v"
	case "comp":
		return fmt.Sprintf("[for r in %s.recs {r.v}]", r)
	}
	panic("bad dep kind " + d.Kind)
}

func (c *Case) body(i int, indent string) string {
	t := c.Tasks[i]
	var b strings.Builder
	w := func(format string, a ...any) { b.WriteString(indent); fmt.Fprintf(&b, format, a...); b.WriteString("\n") }
	w(`$id: "sim"`)
	w("k:   %d", t.K)
	w("in: {")
	if t.Role == "dyn" {
		w("\txv: x")
	}
	if t.Role == "collect" {
		// keyed by label, not a list: the order of dynamically filled fields is
		// not part of the value (and does depend on completion order)
		w("\tall: {for k, v in root.dyn%d {(k): v.out}}", t.Gen)
	}
	for j, d := range t.Deps {
		w("\td%d: %s", j, c.depExpr(d))
	}
	if t.Back != nil {
		w("\tback: %s", c.depExpr(*t.Back))
	}
	w("}")
	if len(t.After) > 0 {
		var rs []string
		for _, a := range t.After {
			rs = append(rs, c.ref(a))
		}
		w("$after: [%s]", strings.Join(rs, ", "))
	}
	w("out: string")
	w("res: deep: string")
	w(`recs: [{n: "a", v: string}, {n: "b", v: string}]`)
	if t.Role == "gen" {
		w("lst: [...int]")
	}
	return b.String()
}

func render(c *Case) string {
	var b strings.Builder
	mids := map[int]bool{}
	for _, t := range c.Tasks {
		for _, d := range t.Deps {
			if d.Kind == "mid" {
				mids[d.On] = true
			}
		}
		if t.Back != nil && t.Back.Kind == "mid" {
			mids[t.Back.On] = true
		}
	}
	b.WriteString("root: {\n")
	var grp, lst, ext []int
	for i, t := range c.Tasks {
		switch {
		case t.Role == "dyn":
			fmt.Fprintf(&b, "\tdyn%d: {\n\t\tfor x in %s.lst if x > 1 {\n\t\t\t\"d\\(x)\": {\n%s\t\t\t}\n\t\t}\n\t}\n", t.Gen, c.ref(t.Gen), c.body(i, "\t\t\t\t"))
		case t.Place == "grp":
			grp = append(grp, i)
		case t.Place == "list":
			lst = append(lst, i)
		case t.Place == "ext":
			ext = append(ext, i)
		case t.Place == "hidden":
			fmt.Fprintf(&b, "\t_%s: {\n%s\t}\n", t.Name, c.body(i, "\t\t"))
		default:
			fmt.Fprintf(&b, "\t%s: {\n%s\t}\n", t.Name, c.body(i, "\t\t"))
		}
	}
	if len(grp) > 0 {
		b.WriteString("\tgrp: {\n")
		for _, i := range grp {
			fmt.Fprintf(&b, "\t\t%s: {\n%s\t\t}\n", c.Tasks[i].Name, c.body(i, "\t\t\t"))
		}
		b.WriteString("\t}\n")
	}
	if len(lst) > 0 {
		b.WriteString("\tlst: [\n")
		for _, i := range lst {
			fmt.Fprintf(&b, "\t\t{\n%s\t\t},\n", c.body(i, "\t\t\t"))
		}
		b.WriteString("\t]\n")
	}
	b.WriteString("}\n")
	if len(ext) > 0 {
		b.WriteString("ext: {\n")
		for _, i := range ext {
			fmt.Fprintf(&b, "\t%s: {\n%s\t}\n", c.Tasks[i].Name, c.body(i, "\t\t"))
		}
		b.WriteString("}\n")
	}
	var ms []int
	for i := range mids {
		ms = append(ms, i)
	}
	sort.Ints(ms)
	for _, i := range ms {
		fmt.Fprintf(&b, "mid_%s: %s.out\n", c.Tasks[i].Name, c.ref(i))
	}
	return b.String()
}

// ---------- reference model ----------

type inst struct {
	path   string // as flow reports it (cue.Path.String())
	name   string // unique function symbol
	spec   int
	x      int             // dyn
	in     map[string]any  // expected inputs
	out    string          // expected output
	must   map[string]bool // mandatory predecessors (instance paths)
	always map[string]bool // subset of must that holds whatever the configuration (non-concrete data edges)
}

type model struct {
	insts  map[string]*inst
	order  []string // instance paths in spec order
	cyclic bool
	// dynCyclic: a cycle appears when the result of generator task cycleGen is folded in
	// (through the generated instances of template cycleVia)
	dynCyclic bool
	cycleGen  int
	cycleVia  int
}

func (c *Case) path(i int) string {
	t := c.Tasks[i]
	switch t.Place {
	case "grp":
		return "root.grp." + t.Name
	case "list":
		k := 0
		for j := 0; j < i; j++ {
			if c.Tasks[j].Place == "list" {
				k++
			}
		}
		return fmt.Sprintf("root.lst[%d]", k)
	case "ext":
		return "ext." + t.Name
	case "hidden":
		return "root._" + t.Name
	}
	return "root." + t.Name
}

// short is the second record of a task's result list: a function of the output that does not
// repeat it (a result that contained the output twice would double in size with every level
// of the dependency chain).
func short(out string) string {
	h := uint32(2166136261)
	for i := 0; i < len(out); i++ {
		h = (h ^ uint32(out[i])) * 16777619
	}
	return fmt.Sprintf("E%08x", h)
}

// capped keeps outputs from growing with the number of paths through the dependency graph:
// long inputs enter the output as a digest.
func capped(in string) string {
	if len(in) <= 1500 {
		return in
	}
	return fmt.Sprintf("#%d:%s", len(in), short(in))
}

func outOf(name string, in map[string]any) string {
	j, _ := json.Marshal(in)
	return name + "(" + capped(string(j)) + ")"
}

func buildModel(c *Case) *model {
	m := &model{insts: map[string]*inst{}}
	for i, t := range c.Tasks {
		if t.Back != nil {
			if t.Role == "dyn" {
				// the cycle exists only once the generated tasks do
				m.dynCyclic, m.cycleGen, m.cycleVia = true, t.Gen, i
			} else {
				m.cyclic = true
			}
		}
	}
	// A struct outside the root is a task only if an existing task refers into it.
	exists := make([]bool, len(c.Tasks))
	for i := len(c.Tasks) - 1; i >= 0; i-- {
		if c.Tasks[i].Place != "ext" {
			exists[i] = true
			continue
		}
		for j := i + 1; j < len(c.Tasks); j++ {
			if u := c.Tasks[j]; u.Role == "dyn" {
				n := 0
				for _, x := range c.Tasks[u.Gen].List {
					if x > 1 {
						n++
					}
				}
				if n == 0 { // a template without instances refers to nothing
					continue
				}
			}
			for _, d := range c.Tasks[j].Deps {
				if exists[j] && d.On == i && d.Kind != "const" {
					exists[i] = true
				}
			}
		}
	}
	byspec := map[int][]*inst{}
	for i, t := range c.Tasks {
		if !exists[i] {
			continue
		}
		mk := func(path, name string, x int) *inst {
			in := &inst{path: path, name: name, spec: i, x: x, in: map[string]any{}, must: map[string]bool{}, always: map[string]bool{}}
			if t.Role == "dyn" {
				in.in["xv"] = x
				for _, g := range byspec[t.Gen] {
					in.must[g.path] = true
					in.always[g.path] = true
				}
			}
			if t.Role == "collect" {
				all := map[string]any{}
				for _, g := range byspec[t.Gen] {
					in.must[g.path], in.always[g.path] = true, true
				}
				for j, u := range c.Tasks {
					if u.Role == "dyn" && u.Gen == t.Gen {
						for _, d := range byspec[j] {
							all[fmt.Sprintf("d%d", d.x)] = d.out
							in.must[d.path], in.always[d.path] = true, true
						}
					}
				}
				in.in["all"] = all
			}
			for j, d := range t.Deps {
				if m.cyclic {
					break
				}
				p := byspec[d.On][0]
				key := fmt.Sprintf("d%d", j)
				switch d.Kind {
				case "out", "mid":
					in.in[key] = p.out
				case "interp":
					in.in[key] = "x-" + p.out + "-y"
				case "nested":
					in.in[key] = "D" + p.out
				case "const":
					in.in[key] = c.Tasks[d.On].K + 1
				case "len":
					in.in[key] = len(p.out)
				case "whole":
					in.in[key] = map[string]any{"deep": "D" + p.out}
				case "recs":
					in.in[key] = []any{map[string]any{"n": "a", "v": p.out}, map[string]any{"n": "b", "v": short(p.out)}}
				case "rec0":
					in.in[key] = p.out
				case "comp":
					in.in[key] = []any{p.out, short(p.out)}
				}
				if d.Kind == "const" {
					if !c.IgnoreConcrete {
						in.must[p.path] = true
					}
				} else {
					in.must[p.path], in.always[p.path] = true, true
				}
			}
			for _, a := range t.After {
				if m.cyclic {
					break
				}
				p := byspec[a][0]
				in.must[p.path], in.always[p.path] = true, true
			}
			in.out = outOf(name, in.in)
			return in
		}
		switch t.Role {
		case "dyn":
			g := c.Tasks[t.Gen]
			for _, x := range g.List {
				if x > 1 {
					p := fmt.Sprintf("root.dyn%d.d%d", t.Gen, x)
					byspec[i] = append(byspec[i], mk(p, fmt.Sprintf("%s_%d", t.Name, x), x))
				}
			}
		default:
			byspec[i] = []*inst{mk(c.path(i), t.Name, 0)}
		}
		for _, in := range byspec[i] {
			m.insts[in.path] = in
			m.order = append(m.order, in.path)
		}
	}
	return m
}

// ---------- harness ----------

type event struct {
	seq   uint64
	kind  string // start | end | returned | cancel
	path  string
	in    string // start: canonical JSON of the inputs the task saw, or "!"+error
	fail  bool
}

type harness struct {
	c      *Case
	s      *sim.Sched
	m      *model
	mu     sync.Mutex
	events []event
	faults map[string]int
	inRun  int
	maxRun int

	finalOut map[string]string

	inUpdate        bool
	cancelMidUpdate bool
}

func (h *harness) record(e event) {
	h.mu.Lock()
	if e.seq == 0 {
		e.seq = h.s.Seq()
	}
	h.events = append(h.events, e)
	h.mu.Unlock()
}

func canon(data []byte) string {
	var v any
	if err := json.Unmarshal(data, &v); err != nil {
		return "!" + err.Error()
	}
	out, _ := json.Marshal(v)
	return string(out)
}

type runner struct{ h *harness }

func (r runner) Run(t *flow.Task, _ error) error {
	h := r.h
	path := t.Path().String()
	in := ""
	data, err := t.Value().LookupPath(cue.ParsePath("in")).MarshalJSON()
	if err != nil {
		in = "!" + strings.ReplaceAll(err.Error(), "\n", " ")
	} else {
		in = canon(data)
	}
	// A task is started by the controller's go statement: stamp the start
	// with the sequence number of that statement, not with the moment the
	// scheduler first lets the new goroutine run.
	var at uint64
	if cur := h.s.Cur(); cur != nil {
		at = cur.SpawnSeq
	}
	h.record(event{kind: "start", path: path, in: in, seq: at})
	h.mu.Lock()
	h.inRun++
	if h.inRun > h.maxRun {
		h.maxRun = h.inRun
	}
	h.mu.Unlock()
	kind := sim.KRun
	for _, st := range h.c.Stall {
		if st == path {
			kind = sim.KStalled
			h.faults["stall"]++
		}
	}
	h.s.Park(kind, "Run", path+" ")
	h.mu.Lock()
	h.inRun--
	h.mu.Unlock()
	if h.c.Fail == path {
		h.faults["task-"+h.c.FailMode]++
		h.record(event{kind: "end", path: path, fail: true})
		if h.c.FailMode == "abort" {
			return flow.ErrAbort
		}
		if h.c.FailMode == "conflict" {
			// the runner succeeds, but what it fills in contradicts the configuration (out: string):
			// the task has not completed successfully and its results cannot be filled in
			t.Fill(map[string]any{"out": 7})
			return nil
		}
		return errors.New("injected task failure")
	}
	// the result is a function of the inputs the task actually saw
	name := path
	if i := h.m.insts[path]; i != nil {
		name = i.name
	}
	out := name + "(" + capped(in) + ")"
	res := map[string]any{"out": out, "res": map[string]any{"deep": "D" + out},
		"recs": []any{map[string]any{"n": "a", "v": out}, map[string]any{"n": "b", "v": short(out)}}}
	if i := h.m.insts[path]; i != nil && h.c.Tasks[i.spec].Role == "gen" {
		res["lst"] = h.c.Tasks[i.spec].List
	}
	t.Fill(res)
	h.record(event{kind: "end", path: path})
	return nil
}

func exec(t *testing.T, ci sim.CaseI, choices []uint32, keepLog bool) *sim.Outcome {
	c := ci.(*Case)
	cfg := c.Sched
	cfg.Choices = choices
	if cfg.MaxSteps == 0 {
		cfg.MaxSteps = 5000
	}
	s := sim.NewSched(cfg, keepLog)
	m := buildModel(c)
	h := &harness{c: c, s: s, m: m, faults: map[string]int{}, finalOut: map[string]string{}}
	src := render(c)
	var runErr error
	var final []byte
	var finalErr error
	var panicked any
	returned := false
	res := sim.RunBubble(t, s, func() {
		ctx, cancel := context.WithCancel(context.Background())
		_ = cancel
		s.Go("controller", 0, func() {
			defer func() {
				if p := recover(); p != nil {
					panicked = p
				}
			}()
			v := cuecontext.New().CompileString(src, cue.Filename("wf.cue"))
			if v.Err() != nil {
				sim.Trouble("generated program does not compile: %v\n%s", v.Err(), src)
			}
			fc := &flow.Config{Root: cue.ParsePath("root"), IgnoreConcrete: c.IgnoreConcrete, InferTasks: c.InferTasks, FindHiddenTasks: c.FindHiddenTasks}
			fc.UpdateFunc = func(_ *flow.Controller, t *flow.Task) error {
				if t == nil {
					return nil
				}
				// the controller has folded the result of t into the configuration
				h.record(event{kind: "update", path: t.Path().String()})
				if c.UpdatePark > 0 && s.Coin(c.UpdatePark) {
					h.inUpdate = true
					s.Park(sim.KYield, "UpdateFunc", t.Path().String()+" ")
					h.inUpdate = false
				}
				return nil
			}
			ctl := flow.New(fc, v, func(v cue.Value) (flow.Runner, error) {
				if id, err := v.LookupPath(cue.ParsePath("$id")).String(); err == nil && id == "sim" {
					return runner{h}, nil
				}
				return nil, nil
			})
			h.record(event{kind: "run-begin"})
			runErr = ctl.Run(ctx)
			h.record(event{kind: "returned"})
			returned = true
			if runErr == nil {
				fv := ctl.Value()
				final, finalErr = fv.LookupPath(cue.ParsePath("root")).MarshalJSON()
				for _, p := range m.order { // hidden and external tasks are not part of root's JSON
					o, err := fv.LookupPath(selPath(p + ".out")).String()
					if err != nil {
						o = "!" + err.Error()
					}
					h.finalOut[p] = o
				}
			}
		})
		if c.CancelAfter > 0 {
			s.Go("canceller", 0, func() {
				for i := 0; i < c.CancelAfter; i++ {
					s.Park(sim.KClient, "canceller", "")
				}
				h.faults["cancel"]++
				// a cancellation that arrives while the controller is busy folding a result in (parked in
				// UpdateFunc) cannot stop the dispatch pass that is under way
				h.cancelMidUpdate = h.inUpdate
				h.record(event{kind: "cancel"})
				cancel()
			})
		}
	}, nil)
	out := &sim.Outcome{Res: res, Faults: h.faults, Counters: map[string]int{}}
	out.NonTrivial = h.maxRun >= 2
	out.Counters[fmt.Sprintf("max-runners-parked-%d", min(h.maxRun, 6))]++
	if m.cyclic {
		out.Counters["cyclic-workflows"]++
	}
	if m.dynCyclic {
		out.Counters["workflows-with-a-cycle-created-by-a-result"]++
	}
	for _, t := range c.Tasks {
		if t.Role == "dyn" {
			out.Counters["workflows-with-dynamic-tasks"]++
		}
	}
	if res.Violation == nil && panicked != nil {
		out.Res.Violation = &sim.Violation{Class: "panic", Msg: fmt.Sprint(panicked), Step: res.Steps}
	}
	if out.Res.Violation == nil {
		if !returned {
			out.Res.Violation = &sim.Violation{Class: "deadlock", Msg: "Run never returned", Step: res.Steps}
		} else if v := judge(c, m, h, runErr, final, finalErr, src, out); v != nil {
			v.Step = res.Steps
			out.Res.Violation = v
		}
	}
	if out.Res.Violation != nil {
		out.Key = out.Res.Violation.Class
	}
	out.Final = canon(final)
	return out
}

func viol(class, format string, args ...any) *sim.Violation {
	return &sim.Violation{Class: class, Msg: fmt.Sprintf(format, args...)}
}

func judge(c *Case, m *model, h *harness, runErr error, final []byte, finalErr error, src string, out *sim.Outcome) *sim.Violation {
	start := map[string]uint64{}
	end := map[string]uint64{}
	failed := map[string]bool{}
	var retSeq, cancelSeq, beginSeq uint64
	for _, e := range h.events {
		switch e.kind {
		case "start":
			if _, dup := start[e.path]; dup {
				return viol("ran-twice", "task %s was started twice", e.path)
			}
			start[e.path] = e.seq
		case "end":
			end[e.path] = e.seq
			failed[e.path] = e.fail
		case "run-begin":
			beginSeq = e.seq
		case "returned":
			retSeq = e.seq
		case "cancel":
			cancelSeq = e.seq
		}
	}
	if m.dynCyclic {
		// The workflow is acyclic until the generator's result creates the generated tasks. Once the
		// controller has folded that result in (its update callback for the generator), the cycle
		// exists: Run must report it — not return nil, not hang, not report something else when
		// nothing else went wrong — and the tasks on the cycle and their dependants, whose inputs can
		// never be resolved, must never start. What the controller does with tasks that are
		// independent of the cycle is not the property's business. (The time the generator's runner
		// returned is not the reference point: its result may still be queued behind others.)
		genPath := c.path(m.cycleGen)
		var folded uint64
		for _, e := range h.events {
			if e.kind == "update" && e.path == genPath {
				folded = e.seq
			}
		}
		if folded == 0 {
			if runErr == nil {
				return viol("cycle-not-reported", "Run returned nil although %s, whose result creates a dependency cycle, was never folded in", genPath)
			}
			return nil // failure / cancellation elsewhere came first: no cycle yet
		}
		if runErr == nil {
			return viol("cycle-not-reported", "a dependency cycle appeared when the result of %s was folded in, but Run returned nil", genPath)
		}
		if c.Fail == "" && c.CancelAfter == 0 && !strings.Contains(strings.ToLower(runErr.Error()), "cycl") {
			return viol("cycle-not-reported", "a dependency cycle appeared when the result of %s was folded in, and nothing else went wrong, but the error of Run does not report a cycle: %v", genPath, runErr)
		}
		// blocked: the generated tasks (they refer to a task that transitively waits for them) and
		// everything that must wait for one of them
		blocked := map[string]bool{}
		for _, in := range m.insts {
			if in.spec == m.cycleVia {
				blocked[in.path] = true
			}
		}
		for changed := true; changed; {
			changed = false
			for _, in := range m.insts {
				if blocked[in.path] {
					continue
				}
				for d := range in.must {
					if blocked[d] {
						blocked[in.path] = true
						changed = true
						break
					}
				}
			}
		}
		for _, e := range h.events {
			if e.kind == "start" && blocked[e.path] {
				return viol("cycle-task-started", "task %s was started although it is on, or waits for, a dependency cycle (created by the result of %s)", e.path, genPath)
			}
		}
		out.Counters["dynamic-cycles-checked"]++
		return nil
	}
	if m.cyclic {
		if runErr == nil {
			return viol("cycle-not-reported", "cyclic workflow: Run returned nil")
		}
		if len(start) > 0 {
			return viol("cycle-task-started", "cyclic workflow: tasks were started: %v", keys(start))
		}
		return nil
	}
	for _, e := range h.events {
		if e.kind != "start" {
			continue
		}
		in := m.insts[e.path]
		if in == nil {
			return viol("unknown-task", "a task ran at %s, which the workflow does not define", e.path)
		}
		if retSeq != 0 && e.seq > retSeq {
			return viol("start-after-return", "task %s started after Run had returned", e.path)
		}
		// A cancellation that arrives while Run is waiting for results ends the run: nothing is
		// dispatched afterwards. (Cancelled before Run began, the controller still dispatches the
		// tasks that are ready, which the statement does not forbid: they are nobody's dependants.)
		if cancelSeq != 0 && beginSeq != 0 && cancelSeq > beginSeq && e.seq > cancelSeq && !h.cancelMidUpdate {
			return viol("start-after-cancel", "task %s started after the context was cancelled", e.path)
		}
		for p := range in.must {
			es, ok := end[p]
			if !ok || es > e.seq {
				cls := "started-before-dependency"
				if !in.always[p] {
					cls = "started-before-concrete-dependency"
				}
				return viol(cls, "task %s started (event %d) before its dependency %s had completed (%v)", e.path, e.seq, p, endDesc(end, p))
			}
			if failed[p] {
				return viol("started-after-failed-dependency", "task %s started although its dependency %s failed", e.path, p)
			}
		}
		want, _ := json.Marshal(in.in)
		if strings.HasPrefix(e.in, "!") {
			return viol("inputs-not-concrete", "task %s was started with inputs that are not concrete: %s (want %s)", e.path, e.in, want)
		}
		if e.in != string(want) {
			return viol("stale-inputs", "task %s saw inputs %s at start, want %s (results of its dependencies not folded in)", e.path, e.in, want)
		}
	}
	faulted := c.Fail != "" && h.faults["task-"+c.FailMode] > 0
	cancelled := cancelSeq != 0 && (retSeq == 0 || cancelSeq < retSeq)
	if c.Fail != "" && !faulted && !cancelled {
		// the failing task never ran: it must have been unreachable — impossible for an acyclic workflow without other faults
		return viol("task-never-ran", "task %s (chosen to fail) never ran and nothing else failed", c.Fail)
	}
	if faulted {
		if runErr == nil {
			return viol("failure-not-reported", "task %s failed (%s) but Run returned nil", c.Fail, c.FailMode)
		}
		return nil
	}
	if cancelled {
		return nil
	}
	// no failure, no cancellation: everything ran, Run succeeded, final value = program & results
	if runErr != nil {
		return viol("spurious-error", "Run failed without any fault: %v", runErr)
	}
	for _, p := range m.order {
		if _, ok := end[p]; !ok {
			return viol("task-never-ran", "task %s of an acyclic workflow never ran although nothing failed", p)
		}
	}
	if finalErr != nil {
		return viol("final-not-concrete", "final configuration cannot be marshalled: %v", finalErr)
	}
	// expected final configuration: a fresh evaluation of the program unified with every task's result
	ctx := cuecontext.New()
	v := ctx.CompileString(src, cue.Filename("wf.cue"))
	for _, p := range m.order {
		in := m.insts[p]
		resv := map[string]any{"out": in.out, "res": map[string]any{"deep": "D" + in.out},
			"recs": []any{map[string]any{"n": "a", "v": in.out}, map[string]any{"n": "b", "v": short(in.out)}}}
		if c.Tasks[in.spec].Role == "gen" {
			resv["lst"] = c.Tasks[in.spec].List
		}
		v = v.FillPath(selPath(p), resv)
	}
	for _, p := range m.order {
		if got := h.finalOut[p]; got != m.insts[p].out {
			return viol("wrong-final-value", "final configuration: %s.out = %q, want %q", p, got, m.insts[p].out)
		}
	}
	want, err := v.LookupPath(cue.ParsePath("root")).MarshalJSON()
	if err != nil {
		return viol("harness-expected-value", "cannot compute the expected final configuration: %v", err)
	}
	if canon(final) != canon(want) {
		return viol("wrong-final-value", "Controller.Value() = %s\nwant (program & all results) %s", canon(final), canon(want))
	}
	out.Counters["final-values-compared"]++
	return nil
}

// selPath converts an instance path as printed by cue.Path.String into a
// cue.Path, treating labels that start with an underscore as hidden fields.
func selPath(p string) cue.Path {
	var sels []cue.Selector
	for _, part := range strings.Split(p, ".") {
		idx := -1
		if i := strings.IndexByte(part, '['); i >= 0 {
			fmt.Sscanf(part[i:], "[%d]", &idx)
			part = part[:i]
		}
		if strings.HasPrefix(part, "_") {
			sels = append(sels, cue.Hid(part, "_"))
		} else {
			sels = append(sels, cue.Str(part))
		}
		if idx >= 0 {
			sels = append(sels, cue.Index(idx))
		}
	}
	return cue.MakePath(sels...)
}

func endDesc(end map[string]uint64, p string) string {
	if s, ok := end[p]; ok {
		return fmt.Sprintf("it completed at event %d", s)
	}
	return "it never completed"
}

func keys(m map[string]uint64) []string {
	var out []string
	for k := range m {
		out = append(out, k)
	}
	sort.Strings(out)
	return out
}

var Prop = &sim.Prop{
	ID:   "C18",
	New:  func() sim.CaseI { return &Case{} },
	Gen:  gen,
	Exec: exec,
	Rule: "case = generated CUE workflow of 2-10 tasks (chains, fan-in/out, diamonds; references to task outputs directly, through interpolation, nested result fields, intermediate top-level fields, constant fields, len(); $after lists; tasks in nested structs, lists, hidden fields, outside the root; tasks generated by a comprehension over another task's output and a collector over them; cyclic workflows) x flow.Config knobs x scheduler policy (discrete-event task durations, uniform, PCT, sequential) x fault plan (one task error/abort, stalled task, context cancellation), all from the run seed; non-trivial = at least two task runners were running at the same time; distinct = distinct hash of the full event log",
	Real: []string{"tools/flow (controller, initTasks, dependency analysis, checkCycle)", "internal/core/dep", "CUE evaluator + cue API", "internal/core/convert (Task.Fill)"},
	Stubs: []string{"task runners: synthetic flow.Runner values that park in the simulator (the pkg/tool/* runners do real I/O)"},
}

func TestWorker(t *testing.T) { sim.WorkerMain(t, Prop) }
